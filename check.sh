#!/bin/sh
# Usage: ./check.sh <Cxx> quick|thorough      run the check of one property
#        ./check.sh replay <file>             re-execute a replay file
#        ./check.sh selftest <what>           determinism / probes / replayfuzz self-tests
# Rebuilds the simulator (and with it futures-intrusive from /repo's working tree, hooks on)
# before every invocation. Exit: 0 held / 1 violation / 2 harness or build error.
ROOT="$(cd "$(dirname "$0")" && pwd)"
export CARGO_NET_OFFLINE=true
cd "$ROOT/sim" || exit 2
build() {
    if ! cargo build --offline "$@" >"$ROOT/sim/target-build.log" 2>&1; then
        tail -40 "$ROOT/sim/target-build.log" >&2
        echo "harness error: simulator build failed" >&2
        exit 2
    fi
}
build --release
# C01 spends half of its budget on a build with debug assertions and overflow checks
case "$1" in C01|selftest|setup) build --profile checked ;; esac
# a replay recorded on the checked build is re-executed there
if [ "$1" = replay ] && grep -q '"runner": *"checked"' "$2" 2>/dev/null; then build --profile checked; fi
BIN="$ROOT/sim/target/release/simctl"
cd "$ROOT" || exit 2
case "$1" in
    setup)
        # warm the Miri build of the simulator (L4 tier of C01); optional tool
        (cd "$ROOT/sim" && cargo +nightly miri run --offline --no-default-features -- help >/dev/null 2>&1) || true
        exit 0 ;;
    replay) exec "$BIN" replay "$2" ;;
    selftest) shift; exec "$BIN" selftest "$@" --root "$ROOT" ;;
    *) exec "$BIN" check "$1" --tier "${2:-${VERIF_TIER:-quick}}" --root "$ROOT" ;;
esac
