mod alloc_count;
mod check;
mod clock;
mod core;
mod flavour;
mod l1;
mod l2;
mod l4;
mod lin;
#[cfg(feature = "l3")]
mod l3;
mod quarantine;
mod rng;
mod val;

#[global_allocator]
static GLOBAL: alloc_count::Counting = alloc_count::Counting;

use std::time::Instant;

fn arg_val(args: &[String], name: &str) -> Option<String> {
    args.iter().position(|a| a == name).and_then(|i| args.get(i + 1).cloned())
}

fn main() {
    core::install_panic_hook();
    let args: Vec<String> = std::env::args().collect();
    let cmd = args.get(1).map(|s| s.as_str()).unwrap_or("help");
    match cmd {
        "l1" => {
            let world = arg_val(&args, "--world").unwrap_or("semaphore".into());
            let runs: u64 = arg_val(&args, "--runs").and_then(|s| s.parse().ok()).unwrap_or(100_000);
            let seed: u64 = arg_val(&args, "--seed").and_then(|s| s.parse().ok()).unwrap_or(1);
            let threads: usize = arg_val(&args, "--threads").and_then(|s| s.parse().ok()).unwrap_or(16);
            let gate = arg_val(&args, "--gate").unwrap_or("C06".into());
            let first_run: u64 = arg_val(&args, "--first-run").and_then(|s| s.parse().ok()).unwrap_or(0);
            let def = l1::world_by_name(&world).expect("unknown world");
            let mut over = core::Cfg::new();
            for (i, a) in args.iter().enumerate() {
                if a == "--set" {
                    if let Some((k, v)) = args.get(i + 1).and_then(|kv| kv.split_once('=')) {
                        over.insert(k.to_string(), v.parse().unwrap());
                    }
                }
            }
            let t0 = Instant::now();
            let spec = l1::BatchSpec {
                def,
                seed,
                first_run,
                runs,
                gate_prop: &gate,
                threads,
                cfg_override: over,
                collect_states: true,
                stop_on_first: false,
                max_found: 5,
                idx_dir: None,
                oplog: None,
            };
            let out = l1::run_batch(&spec);
            let dt = t0.elapsed().as_secs_f64();
            println!("world={} runs={} wall={:.2}s ({:.1} us/run/thread) nontrivial_distinct={} states={} transitions={} loghash={:016x}",
                world, out.runs, dt, dt * 1e6 * threads as f64 / out.runs as f64, out.nontrivial_fps.len(), out.states.len(), out.transitions.len(), out.log_hash_xor);
            println!("faults: {:?}", out.stats.faults);
            println!("probes: {:?}", out.stats.probes);
            println!("notes: {:?}", out.notes);
            println!("found: {}", out.found.len());
            let mut env = core::Env::new();
            for f in out.found.iter().take(3) {
                let first = f.fails.iter().find(|x| x.prop == gate).unwrap();
                let (cfg, ops) = l1::minimise(def, &f.cfg, &f.ops, &first.prop, &first.oracle, &mut env, 2000);
                println!("run {} ops {} -> {}: {:?}\n  cfg {:?}\n  {}", f.run_index, f.ops.len(), ops.len(), l1::render_ops(def, &ops), cfg, first.msg);
            }
        }
        "l2" => {
            let name = arg_val(&args, "--scen").unwrap_or("S-mutex".into());
            let runs: u64 = arg_val(&args, "--runs").and_then(|s| s.parse().ok()).unwrap_or(20_000);
            let seed: u64 = arg_val(&args, "--seed").and_then(|s| s.parse().ok()).unwrap_or(1);
            let def = l2::scen_by_name(&name).expect("unknown scenario");
            let first_run: u64 = arg_val(&args, "--first-run").and_then(|s| s.parse().ok()).unwrap_or(0);
            let t0 = Instant::now();
            let mut nfail = 0;
            let mut stats = core::Stats::default();
            let mut steps = 0u64;
            let mut simt = 0u64;
            let mut nontrivial = std::collections::HashSet::new();
            for r in first_run..first_run + runs {
                let mut rng = rng::Rng::for_run(seed, def.name, r);
                let mut cfg = (def.draw_cfg)(&mut rng);
                for (i, a) in args.iter().enumerate() {
                    if a == "--set" {
                        if let Some((k, v)) = args.get(i + 1).and_then(|kv| kv.split_once('=')) {
                            cfg.insert(k.to_string(), v.parse().unwrap());
                        }
                    }
                }
                let out = l2::run(def, &cfg, l2::Chooser::generate(rng));
                stats.merge(&out.stats);
                steps += out.steps;
                simt += out.sim_time_ms;
                if out.nontrivial {
                    nontrivial.insert(out.fp);
                }
                if !out.fails.is_empty() {
                    nfail += 1;
                    if nfail <= 3 {
                        let f = &out.fails[0];
                        let t = l2::minimise(def, &cfg, &out.tape, &f.prop, &f.oracle, 300);
                        println!("run {} FAIL {}:{} {}\n  cfg {:?}\n  tape {} -> {}: {:?}", r, f.prop, f.oracle, f.msg, cfg, out.tape.len(), t.len(), t);
                    }
                }
            }
            let dt = t0.elapsed().as_secs_f64();
            println!("scen={} runs={} fails={} wall={:.2}s ({:.1} us/run) steps/run={:.1} sim_ms/run={:.1} nontrivial_distinct={}", name, runs, nfail, dt, dt * 1e6 / runs as f64, steps as f64 / runs as f64, simt as f64 / runs as f64, nontrivial.len());
            println!("faults: {:?}", stats.faults);
            println!("probes: {:?}", stats.probes);
        }
        #[cfg(feature = "l3")]
        "l3" => {
            let name = arg_val(&args, "--scen").unwrap_or("T-mutex".into());
            let runs: u64 = arg_val(&args, "--runs").and_then(|s| s.parse().ok()).unwrap_or(5_000);
            let seed: u64 = arg_val(&args, "--seed").and_then(|s| s.parse().ok()).unwrap_or(1);
            let threads: usize = arg_val(&args, "--threads").and_then(|s| s.parse().ok()).unwrap_or(16);
            let gate = arg_val(&args, "--gate").unwrap_or("C03".into());
            let def = l3::scen_by_name(&name).expect("unknown scenario");
            l3::install_sched_hook();
            let mut over = core::Cfg::new();
            for (i, a) in args.iter().enumerate() {
                if a == "--set" {
                    if let Some((k, v)) = args.get(i + 1).and_then(|kv| kv.split_once('=')) {
                        over.insert(k.to_string(), v.parse().unwrap());
                    }
                }
            }
            let t0 = Instant::now();
            let out = l3::run_batch(def, seed, 0, runs, &gate, threads, &over, false, 5, None, None);
            let dt = t0.elapsed().as_secs_f64();
            println!("scen={} runs={} wall={:.2}s ({:.1} us/run/thread) steps/run={:.1} preemptions/run={:.1} distinct_schedules={} found={} notes={:?}",
                name, out.runs, dt, dt * 1e6 * threads as f64 / out.runs.max(1) as f64, out.steps as f64 / out.runs.max(1) as f64, out.preemptions as f64 / out.runs.max(1) as f64, out.nontrivial.len(), out.found.len(), out.notes);
            for f in out.found.iter().take(3) {
                let fl = f.fails.iter().find(|x| x.prop == gate).unwrap_or(&f.fails[0]);
                let t = l3::minimise(def, &f.cfg, &f.trace, &fl.prop, &fl.oracle, 200);
                println!("run {} FAIL {}:{} {}\n  cfg {:?}\n  decisions {} -> {}, draws {}", f.run_index, fl.prop, fl.oracle, fl.msg, f.cfg, f.trace.decisions.len(), t.decisions.len(), t.draws.len());
            }
        }
        "check" => {
            let prop = args.get(2).cloned().unwrap_or_default();
            let tier = arg_val(&args, "--tier").or_else(|| std::env::var("VERIF_TIER").ok()).unwrap_or("quick".into());
            let seed: u64 = arg_val(&args, "--seed").or_else(|| std::env::var("VERIF_SEED").ok()).and_then(|s| s.parse().ok()).unwrap_or(1);
            let threads: usize = arg_val(&args, "--threads").and_then(|s| s.parse().ok()).unwrap_or_else(|| std::thread::available_parallelism().map(|n| n.get()).unwrap_or(4).min(16));
            let root = arg_val(&args, "--root").unwrap_or("/verif".into());
            std::process::exit(check::cmd_check(std::path::Path::new(&root), &prop, &tier, seed, threads));
        }
        "miri-threads" => {
            match l4::thread_scenario().and_then(|_| l4::thread_scenario_b()) {
                Ok(()) => println!("thread scenario ok"),
                Err(e) => {
                    println!("thread scenario FAILED: {}", e);
                    std::process::exit(1);
                }
            }
        }
        "trace" => {
            // dumps the concrete trace of one L1 run as a replay file on stdout (no oracle needs to fail)
            let world = arg_val(&args, "--world").unwrap_or("mutex".into());
            let seed: u64 = arg_val(&args, "--seed").and_then(|s| s.parse().ok()).unwrap_or(1);
            let run: u64 = arg_val(&args, "--run").and_then(|s| s.parse().ok()).unwrap_or(0);
            if let Some(scen) = arg_val(&args, "--scen") {
                // the choice tape of one L2 run
                let def = l2::scen_by_name(&scen).expect("unknown scenario");
                let mut rng = rng::Rng::for_run(seed, def.name, run);
                let cfg = (def.draw_cfg)(&mut rng);
                let out = l2::run(def, &cfg, l2::Chooser::generate(rng));
                let rep = l1::Replay {
                    property: "C01".into(),
                    oracle: "miri".into(),
                    layer: "L2".into(),
                    world: scen.clone(),
                    seed,
                    run_index: run,
                    config: cfg,
                    ops_readable: vec![],
                    ops: vec![],
                    message: "undefined behaviour reported by Miri while executing this run".into(),
                    event_log_hash: format!("{:016x}", out.log_hash),
                    minimised_from_ops: 0,
                    runner: "miri".into(),
                    tape: out.tape,
                };
                println!("{}", serde_json::to_string_pretty(&rep).unwrap());
                return;
            }
            let def = l1::world_by_name(&world).expect("unknown world");
            let (cfg, mut rng) = l1::draw_run_cfg(def, seed, run, &core::Cfg::new());
            let mut env = core::Env::new();
            env.reset();
            let ops = (def.gen_run)(&cfg, &mut rng, &mut env);
            let rep = l1::Replay {
                property: "C01".into(),
                oracle: "miri".into(),
                layer: "L1".into(),
                world: world.clone(),
                seed,
                run_index: run,
                config: cfg,
                ops_readable: l1::render_ops(def, &ops),
                ops,
                message: "undefined behaviour reported by Miri while executing this history".into(),
                event_log_hash: format!("{:016x}", env.log.get()),
                minimised_from_ops: 0,
                runner: "miri".into(),
                tape: vec![],
            };
            println!("{}", serde_json::to_string_pretty(&rep).unwrap());
        }
        "selftest" => {
            let what = args.get(2).cloned().unwrap_or_default();
            let runs: u64 = arg_val(&args, "--runs").and_then(|s| s.parse().ok()).unwrap_or(3000);
            let seed: u64 = arg_val(&args, "--seed").or_else(|| std::env::var("VERIF_SEED").ok()).and_then(|s| s.parse().ok()).unwrap_or(1);
            match what.as_str() {
                "determinism" => std::process::exit(check::cmd_selftest_determinism(runs, seed)),
                "probes" => std::process::exit(check::cmd_selftest_probes(seed)),
                "replayfuzz" => std::process::exit(check::cmd_selftest_replayfuzz(runs.max(1), seed)),
                _ => {
                    eprintln!("usage: simctl selftest determinism [--runs N] | probes | replayfuzz [--runs N]");
                    std::process::exit(2);
                }
            }
        }
        "worker" => {
            let spec = args.get(2).cloned().unwrap_or_default();
            std::process::exit(check::cmd_worker(&spec));
        }
        "replay-inproc" => {
            let path = args.get(2).cloned().unwrap_or_default();
            std::process::exit(check::cmd_replay_inproc(&path));
        }
        "minimise-inproc" => {
            let path = args.get(2).cloned().unwrap_or_default();
            std::process::exit(check::cmd_minimise_inproc(&path));
        }
        "replay" => {
            let path = args.get(2).cloned().unwrap_or_default();
            std::process::exit(check::cmd_replay(&path));
        }
        _ => {
            eprintln!("usage: simctl check <Cxx> --tier quick|thorough | replay <file> | l1 --world W --runs N");
            std::process::exit(2);
        }
    }
}
