mod alloc_count;
mod check;
mod clock;
mod core;
mod flavour;
mod l1;
mod rng;
mod val;

#[global_allocator]
static GLOBAL: alloc_count::Counting = alloc_count::Counting;

use std::time::Instant;

fn arg_val(args: &[String], name: &str) -> Option<String> {
    args.iter().position(|a| a == name).and_then(|i| args.get(i + 1).cloned())
}

fn main() {
    core::install_panic_hook();
    let args: Vec<String> = std::env::args().collect();
    let cmd = args.get(1).map(|s| s.as_str()).unwrap_or("help");
    match cmd {
        "l1" => {
            let world = arg_val(&args, "--world").unwrap_or("semaphore".into());
            let runs: u64 = arg_val(&args, "--runs").and_then(|s| s.parse().ok()).unwrap_or(100_000);
            let seed: u64 = arg_val(&args, "--seed").and_then(|s| s.parse().ok()).unwrap_or(1);
            let threads: usize = arg_val(&args, "--threads").and_then(|s| s.parse().ok()).unwrap_or(16);
            let gate = arg_val(&args, "--gate").unwrap_or("C06".into());
            let def = l1::world_by_name(&world).expect("unknown world");
            let mut over = core::Cfg::new();
            for (i, a) in args.iter().enumerate() {
                if a == "--set" {
                    if let Some((k, v)) = args.get(i + 1).and_then(|kv| kv.split_once('=')) {
                        over.insert(k.to_string(), v.parse().unwrap());
                    }
                }
            }
            let t0 = Instant::now();
            let spec = l1::BatchSpec {
                def,
                seed,
                first_run: 0,
                runs,
                gate_prop: &gate,
                threads,
                cfg_override: over,
                collect_states: true,
                stop_on_first: false,
                max_found: 5,
            };
            let out = l1::run_batch(&spec);
            let dt = t0.elapsed().as_secs_f64();
            println!("world={} runs={} wall={:.2}s ({:.1} us/run/thread) nontrivial_distinct={} states={} transitions={} loghash={:016x}",
                world, out.runs, dt, dt * 1e6 * threads as f64 / out.runs as f64, out.nontrivial_fps.len(), out.states.len(), out.transitions.len(), out.log_hash_xor);
            println!("faults: {:?}", out.stats.faults);
            println!("probes: {:?}", out.stats.probes);
            println!("notes: {:?}", out.notes);
            println!("found: {}", out.found.len());
            let mut env = core::Env::new();
            for f in out.found.iter().take(3) {
                let first = f.fails.iter().find(|x| x.prop == gate).unwrap();
                let (cfg, ops) = l1::minimise(def, &f.cfg, &f.ops, &first.prop, &first.oracle, &mut env, 2000);
                println!("run {} ops {} -> {}: {:?}\n  cfg {:?}\n  {}", f.run_index, f.ops.len(), ops.len(), l1::render_ops(def, &ops), cfg, first.msg);
            }
        }
        "check" => {
            let prop = args.get(2).cloned().unwrap_or_default();
            let tier = arg_val(&args, "--tier").or_else(|| std::env::var("VERIF_TIER").ok()).unwrap_or("quick".into());
            let seed: u64 = arg_val(&args, "--seed").or_else(|| std::env::var("VERIF_SEED").ok()).and_then(|s| s.parse().ok()).unwrap_or(1);
            let threads: usize = arg_val(&args, "--threads").and_then(|s| s.parse().ok()).unwrap_or_else(|| std::thread::available_parallelism().map(|n| n.get()).unwrap_or(4).min(16));
            let root = arg_val(&args, "--root").unwrap_or("/verif".into());
            std::process::exit(check::cmd_check(std::path::Path::new(&root), &prop, &tier, seed, threads));
        }
        "replay" => {
            let path = args.get(2).cloned().unwrap_or_default();
            std::process::exit(check::cmd_replay(&path));
        }
        _ => {
            eprintln!("usage: simctl check <Cxx> --tier quick|thorough | replay <file> | l1 --world W --runs N");
            std::process::exit(2);
        }
    }
}
