//! A small linearizability checker (Wing & Gong style search with memoisation) for the short
//! concurrent histories the thread simulator records: every operation carries the global
//! event sequence numbers of its invocation and of its return.

use std::collections::HashSet;
use std::hash::Hash;

#[derive(Clone, Copy, Debug, PartialEq, Eq)]
pub struct LinOp {
    pub inv: u64,
    pub ret: u64,
    pub thread: u32,
    pub kind: u32,
    pub arg: u32,
    pub res: u32,
}

/// `step(state, op)` returns the successor state if `op` with its recorded result is legal in
/// `state`, None otherwise. Returns Ok(()) or the longest linearizable prefix size reached.
pub fn check<S: Clone + Hash + Eq>(ops: &[LinOp], init: S, step: &dyn Fn(&S, &LinOp) -> Option<S>) -> Result<(), usize> {
    assert!(ops.len() <= 60, "history too long for the linearizability checker");
    let full: u64 = if ops.is_empty() { 0 } else { (1u64 << ops.len()) - 1 };
    let mut seen: HashSet<(u64, S)> = HashSet::new();
    let mut best = 0usize;
    let mut stack: Vec<(u64, S)> = vec![(0, init)];
    let mut budget = 2_000_000u64;
    while let Some((mask, st)) = stack.pop() {
        if mask == full {
            return Ok(());
        }
        budget -= 1;
        if budget == 0 {
            // give up: treat as linearizable (never raise an alarm we cannot justify)
            return Ok(());
        }
        best = best.max(mask.count_ones() as usize);
        // earliest return among the operations not yet linearized
        let mut min_ret = u64::MAX;
        for (i, o) in ops.iter().enumerate() {
            if mask & (1 << i) == 0 {
                min_ret = min_ret.min(o.ret);
            }
        }
        for (i, o) in ops.iter().enumerate() {
            if mask & (1 << i) != 0 {
                continue;
            }
            // `o` may go next only if nothing still pending returned before `o` was invoked
            if o.inv > min_ret {
                continue;
            }
            if let Some(ns) = step(&st, o) {
                let key = (mask | (1 << i), ns);
                if seen.insert(key.clone()) {
                    stack.push(key);
                }
            }
        }
    }
    Err(best)
}
