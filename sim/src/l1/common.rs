//! Boilerplate shared by the L1 worlds: polling / dropping / probing futures in arena cells.

use crate::core::*;
use std::future::Future;
use std::task::{Context, Poll};

pub struct PollOut<T> {
    pub had_uw: bool,
    pub was_fresh: bool,
    /// None: the poll panicked (already recorded)
    pub res: Option<Poll<T>>,
}

/// Polls future `id` through waker variant `variant` if that is a legal thing to do
/// (alive, not completed). The caller evaluates the result and calls `env.end_poll`.
pub fn poll_fut<F: Future>(env: &mut Env, arena: &mut Arena<F>, id: usize, variant: u8) -> Option<PollOut<F::Output>> {
    if !(arena.is_live(id) && matches!(env.slots[id].st, St::Fresh | St::Pending)) {
        return None;
    }
    let was_fresh = env.slots[id].st == St::Fresh;
    let kind = env.slots[id].kind;
    let ws = env.slots[id].wait_start;
    if !was_fresh && env.live.iter().any(|o| *o != id && env.slots[*o].st == St::Pending && env.slots[*o].kind == kind && env.slots[*o].wait_start < ws) {
        env.fault("stale_poll_order");
    }
    let had_uw = env.begin_poll(id, variant);
    let waker = env.waker(id, variant).clone();
    let mut cx = Context::from_waker(&waker);
    let fut = arena.pin(id);
    let res = env.call("poll", || fut.poll(&mut cx));
    drop(waker);
    Some(PollOut { had_uw, was_fresh, res })
}

/// Drops future `id` in place (cell is quarantined afterwards). Returns false if not applicable.
pub fn drop_fut<F>(env: &mut Env, arena: &mut Arena<F>, id: usize) -> bool {
    if !(arena.is_live(id) && env.slots[id].alive()) {
        return false;
    }
    let kind = env.slots[id].kind;
    let pos = if env.slots[id].st == St::Pending {
        let pend = env.pending_sorted(kind);
        pend.iter().position(|x| *x == id).map(|p| (p, pend.len()))
    } else {
        None
    };
    env.note_drop(id, pos);
    let p = arena.take_for_drop(id);
    env.call("drop future", || unsafe { std::ptr::drop_in_place(p) });
    true
}

/// C17 probe: polling a completed future must panic (and must leave the world usable).
pub fn poll_completed<F: Future>(env: &mut Env, arena: &mut Arena<F>, id: usize) -> bool {
    if !(arena.is_live(id) && env.slots[id].st == St::Done) {
        return false;
    }
    let waker = env.waker(id, 0).clone();
    let mut cx = Context::from_waker(&waker);
    let fut = arena.pin(id);
    env.expect_panic = true;
    let res = env.call("poll after completion", || fut.poll(&mut cx).is_ready());
    env.expect_panic = false;
    drop(waker);
    env.fault("poll_after_completion_probe");
    if let Some(ready) = res {
        env.fail(
            "C17",
            "poll-after-completion",
            format!("future #{} was polled after completion and returned {} instead of panicking", id, if ready { "Ready again" } else { "Pending" }),
            true,
        );
    }
    true
}

/// Runs one implicit teardown op through the world's `exec`.
pub fn run_finish_op<W: super::World>(w: &mut W, op: Op, env: &mut Env) {
    if env.has_fatal() {
        return;
    }
    env.wakes.clear();
    env.alloc = Default::default();
    env.finish_ops.push(op);
    env.log_op(op);
    env.log.add(0xF1);
    env.log.add(op.k as u64 ^ ((op.a as u64) << 16));
    w.exec(op, env);
    env.op_index += 1;
}
