//! L1 world: async mutex (NoopLock and parking_lot; fair and unfair).
//! Oracles: C02 mutual exclusion, C03 no lost wake-up, C04 fair FIFO, C01, C17, C18.

use super::common::{drop_fut, poll_completed, poll_fut, run_finish_op};
use super::oracle::{self, AllocAllow, QueueKind};
use super::{generic_gen_run, generic_replay, World, WorldDef};
use crate::core::*;
use crate::flavour::{NoopLock, PlLock};
use crate::rng::Rng;
use futures_core::future::FusedFuture;
use futures_intrusive::sync::{GenericMutex, GenericMutexGuard, GenericMutexLockFuture};
use lock_api::RawMutex;
use std::task::Poll;

pub const OP_NEW: u16 = 0;
pub const OP_POLL: u16 = 1;
pub const OP_DROP: u16 = 2;
pub const OP_TRY: u16 = 3;
pub const OP_DROP_GUARD: u16 = 4;
pub const OP_POLL_COMPLETED: u16 = 5;
pub const OP_DROP_PRIM: u16 = 6;
const OP_NAMES: [&str; 7] = ["New", "Poll", "Drop", "TryLock", "DropGuard", "PollCompleted", "DropPrim"];
const NW: usize = 6;
const WK: [&str; NW] = ["w0", "w1", "w2", "w3", "w4", "w5"];

/// State shared with the re-entrant waker callback (see `core::arm_reentry`): a `try_lock()`
/// issued from inside a waker's clone / wake / drop while a library call is in progress.
struct Nested<M: RawMutex + 'static> {
    m: Option<&'static GenericMutex<M, u64>>,
    got: Option<GenericMutexGuard<'static, M, u64>>,
    fired: bool,
}

unsafe fn nested_try_lock<M: RawMutex + 'static>(ctx: *mut ()) {
    let c = &mut *(ctx as *mut Nested<M>);
    c.fired = true;
    if let Some(m) = c.m {
        c.got = m.try_lock();
    }
}

pub struct MutexWorld<M: RawMutex + 'static> {
    nested: *mut Nested<M>,
    reentrant: bool,
    futs: Arena<GenericMutexLockFuture<'static, M, u64>>,
    guards: Vec<Option<GenericMutexGuard<'static, M, u64>>>,
    prim_ref: Option<&'static GenericMutex<M, u64>>,
    root: Option<Owned<GenericMutex<M, u64>>>,
    prim_alive: bool,
    // model
    fair: bool,
    holder: Option<usize>,
    token: u64,
    used: [bool; MAX_IDS],
    // generation
    k: usize,
    realism: u64,
    weights: [u32; NW],
    next_id: usize,
}

impl<M: RawMutex + 'static> Drop for MutexWorld<M> {
    fn drop(&mut self) {
        crate::core::disarm_reentry();
        // Safety: created by Box::into_raw in new(), hook disarmed
        unsafe {
            let mut b = Box::from_raw(self.nested);
            b.m = None;
            std::mem::forget(b.got.take());
            drop(b);
        }
    }
}

impl<M: RawMutex + 'static> MutexWorld<M> {
    /// a lock attempt (future #id or try_lock) just succeeded
    fn acquired(&mut self, env: &mut Env, id: usize, guard: GenericMutexGuard<'static, M, u64>, how: &str) {
        let mut guard = guard;
        if let Some(h) = self.holder {
            env.fail("C02", "two-guards", format!("{} #{} obtained the mutex while guard #{} is alive", how, id, h), true);
        }
        // the value written through the previous guard must be what this guard reads
        let seen = *guard;
        if seen != self.token {
            env.fail("C02", "guarded-value", format!("guard #{} read {} but the previous holder wrote {}", id, seen, self.token), true);
        }
        self.token = 1000 + id as u64;
        *guard = self.token;
        self.holder = Some(id);
        self.guards[id] = Some(guard);
    }

    /// op.c = n | id << 8: a `try_lock()` (guard id `id`) issued from the n-th waker callback of the call
    fn draw_reentry(&mut self, rng: &mut Rng) -> u64 {
        if !self.reentrant || self.next_id >= MAX_IDS - 1 || !rng.pct(35) {
            return 0;
        }
        self.next_id += 1;
        rng.range(1, 3) as u64 | ((self.next_id - 1) as u64) << 8
    }

    fn check(&mut self, env: &mut Env, op: Op) {
        env.collect_wakes();
        if env.has_fatal() {
            return;
        }
        oracle::c18_alloc(env, AllocAllow { allocs: false, deallocs: op.k == OP_DROP_PRIM }, OP_NAMES[op.k as usize]);
        for i in 0..env.live.len() {
            let id = env.live[i];
            let t = self.futs.get(id).is_terminated();
            oracle::c17_terminated(env, id, t);
        }
        if !self.prim_alive {
            return;
        }
        // C02: is_locked() is true exactly while a guard is alive
        let locked = self.prim_ref.unwrap().is_locked();
        if locked != self.holder.is_some() {
            env.fail("C02", "is-locked", format!("is_locked() = {} but {} guard is alive", locked, if self.holder.is_some() { "a" } else { "no" }), true);
            return;
        }
        let futs = &self.futs;
        let snap = self.prim_ref.unwrap().verif_snapshot(&mut |addr| futs.find(addr).is_some());
        let resolve = |addr: usize| futs.find(addr).map(|id| (id, 0u8));
        let orders = oracle::c01_membership(env, &snap, &resolve, &[QueueKind { name: "waiters", kinds: &[0] }]);
        if env.has_fatal() {
            return;
        }
        // C03: free mutex + pending futures ⇒ someone (fair: the longest-waiting one) holds a wake-up
        if self.holder.is_none() {
            let pend = env.pending_sorted(0);
            if !pend.is_empty() {
                if !pend.iter().any(|id| env.slots[*id].uw()) {
                    env.fail(
                        "C03",
                        "free-no-wake",
                        format!("after {}: the mutex is free, {} lock future(s) are pending and none of them was woken through its latest waker since its last poll", OP_NAMES[op.k as usize], pend.len()),
                        false,
                    );
                } else if self.fair && !env.slots[pend[0]].uw() {
                    env.fail(
                        "C03",
                        "fair-head-no-wake",
                        format!("after {}: fair mutex is free but the longest-waiting future #{} holds no wake-up", OP_NAMES[op.k as usize], pend[0]),
                        false,
                    );
                }
            }
        }
        let model = [self.holder.is_some() as u64, self.fair as u64];
        let sh = oracle::state_hash(env, Some(&snap), &orders, &model);
        env.push_state(sh, op.k);
    }
}

impl<M: RawMutex + 'static> World for MutexWorld<M> {
    fn new(cfg: &Cfg, _env: &mut Env) -> Self {
        let fair = cfg_get(cfg, "fair", 0) != 0;
        // futures and guards are dropped before the root (field order + DropPrim rule)
        let (root, prim_ref) = Owned::new(GenericMutex::<M, u64>::new(7, fair));
        let mut weights = [0u32; NW];
        for (i, w) in weights.iter_mut().enumerate() {
            *w = cfg_get(cfg, WK[i], 10) as u32;
        }
        // re-entrant calls are only meaningful where the internal lock is a no-op (a real lock
        // deadlocks on itself), and they alias `&mut` state, which Miri rightly rejects
        let reentrant = !cfg!(miri) && std::any::TypeId::of::<M>() == std::any::TypeId::of::<NoopLock>() && cfg_get(cfg, "reentrant", 0) != 0;
        MutexWorld {
            nested: Box::into_raw(Box::new(Nested { m: Some(prim_ref), got: None, fired: false })),
            reentrant,
            futs: Arena::new(),
            guards: (0..MAX_IDS).map(|_| None).collect(),
            prim_ref: Some(prim_ref),
            root: Some(root),
            prim_alive: true,
            fair,
            holder: None,
            token: 7,
            used: [false; MAX_IDS],
            k: cfg_get(cfg, "k", 3) as usize,
            realism: cfg_get(cfg, "realism", 50) as u64,
            weights,
            next_id: 0,
        }
    }

    fn gen(&mut self, rng: &mut Rng, env: &Env, teardown: bool) -> Option<Op> {
        let live = &env.live;
        if teardown {
            let mut cands: Vec<Op> = live.iter().map(|id| Op::new(OP_DROP, *id as u32, 0, 0)).collect();
            if let Some(h) = self.holder {
                cands.push(Op::new(OP_DROP_GUARD, h as u32, 0, 0));
            }
            if cands.is_empty() {
                return if self.prim_alive { Some(Op::new(OP_DROP_PRIM, 0, 0, 0)) } else { None };
            }
            return Some(*rng.pick(&cands));
        }
        let pollable: Vec<usize> = live.iter().copied().filter(|id| matches!(env.slots[*id].st, St::Fresh | St::Pending)).collect();
        let done: Vec<usize> = live.iter().copied().filter(|id| env.slots[*id].st == St::Done).collect();
        let mut w = self.weights;
        if pollable.len() >= self.k || self.next_id >= MAX_IDS - 1 {
            w[0] = 0;
        }
        if pollable.is_empty() {
            w[1] = 0;
        }
        if live.is_empty() {
            w[2] = 0;
        }
        if self.next_id >= MAX_IDS - 1 {
            w[3] = 0;
        }
        if self.holder.is_none() {
            w[4] = 0;
        }
        if done.is_empty() {
            w[5] = 0;
        }
        if w.iter().all(|x| *x == 0) {
            return None;
        }
        Some(match rng.weighted(&w) as u16 {
            OP_NEW => {
                self.next_id += 1;
                Op::new(OP_NEW, (self.next_id - 1) as u32, 0, 0)
            }
            OP_POLL => {
                let woken: Vec<usize> = pollable.iter().copied().filter(|id| env.slots[*id].uw() || env.slots[*id].st == St::Fresh).collect();
                let id = if !woken.is_empty() && rng.pct(self.realism) { *rng.pick(&woken) } else { *rng.pick(&pollable) };
                let v = if rng.pct(25) { rng.below(2) as u32 } else { env.slots[id].last_variant as u32 };
                let c = self.draw_reentry(rng);
                Op::new(OP_POLL, id as u32, v, c)
            }
            OP_DROP => {
                let pend: Vec<usize> = live.iter().copied().filter(|id| env.slots[*id].st == St::Pending).collect();
                let id = if !pend.is_empty() && rng.pct(70) { *rng.pick(&pend) } else { *rng.pick(live) };
                let c = self.draw_reentry(rng);
                Op::new(OP_DROP, id as u32, 0, c)
            }
            OP_TRY => {
                self.next_id += 1;
                Op::new(OP_TRY, (self.next_id - 1) as u32, 0, 0)
            }
            OP_DROP_GUARD => {
                let c = self.draw_reentry(rng);
                Op::new(OP_DROP_GUARD, self.holder.unwrap() as u32, 0, c)
            }
            _ => Op::new(OP_POLL_COMPLETED, *rng.pick(&done) as u32, 0, 0),
        })
    }

    fn exec(&mut self, op: Op, env: &mut Env) {
        let id = op.a as usize % MAX_IDS;
        let nth = (op.c & 0xff) as u32;
        let nid = (op.c >> 8) as usize % MAX_IDS;
        let armed = self.reentrant && self.prim_alive && nth != 0 && matches!(op.k, OP_POLL | OP_DROP | OP_DROP_GUARD) && !self.used[nid] && nid != id;
        if armed {
            crate::core::arm_reentry(nested_try_lock::<M>, self.nested as *mut (), nth);
        }
        self.exec_inner(op, env, id);
        if armed {
            crate::core::disarm_reentry();
            // Safety: the hook is disarmed; nobody else touches the box now
            let (fired, got) = unsafe {
                let c = &mut *self.nested;
                (std::mem::replace(&mut c.fired, false), c.got.take())
            };
            if fired {
                env.fault("reentrant_try_lock_in_waker_callback");
                env.log.add(0x5e);
                env.log.add(got.is_some() as u64);
                if let Some(g) = got {
                    // C02 only: whichever way the nested call is ordered relative to the outer
                    // one, two guards must never be alive together
                    env.probe("reentrant_try_lock_succeeded");
                    self.used[nid] = true;
                    if self.fair && env.any_pending(0, usize::MAX) {
                        env.fail("C04", "overtaken", "fair mutex: try_lock (from inside a waker callback) succeeded while lock futures are still pending".into(), false);
                    }
                    self.acquired(env, nid, g, "try_lock from inside a waker callback");
                }
            }
        }
        self.check(env, op);
    }

    fn finish(&mut self, env: &mut Env) {
        self.finish_impl(env)
    }
}

impl<M: RawMutex + 'static> MutexWorld<M> {
    fn exec_inner(&mut self, op: Op, env: &mut Env, id: usize) {
        match op.k {
            OP_NEW => {
                if self.prim_alive && !self.used[id] {
                    let m = self.prim_ref.unwrap();
                    if let Some(f) = env.call("lock", || m.lock()) {
                        self.used[id] = true;
                        self.futs.put(id, f);
                        env.slot_create(id, 0, 0);
                        if env.any_pending(0, id) {
                            env.fault("barge");
                        }
                    }
                }
            }
            OP_POLL => {
                if let Some(out) = poll_fut(env, &mut self.futs, id, (op.b & 1) as u8) {
                    match out.res {
                        None => {}
                        Some(Poll::Ready(guard)) => {
                            if self.fair {
                                let ws = env.slots[id].wait_start;
                                if let Some(earlier) = env.live.iter().copied().find(|o| *o != id && env.slots[*o].st == St::Pending && (out.was_fresh || env.slots[*o].wait_start < ws)) {
                                    env.fail("C04", "overtaken", format!("fair mutex: lock future #{} completed although #{} started waiting earlier and is still pending", id, earlier), false);
                                }
                            }
                            env.end_poll(id, true);
                            if !out.was_fresh && !out.had_uw {
                                env.probe("unfair_waiting_fastpath_lock");
                            }
                            self.acquired(env, id, guard, "lock future");
                        }
                        Some(Poll::Pending) => {
                            env.end_poll(id, false);
                            if !out.was_fresh && out.had_uw {
                                env.slots[id].wait_start = if self.fair { env.slots[id].wait_start } else { env.slots[id].last_poll_seq };
                                env.probe("requeue_after_barging");
                                env.fault("woken_requeued");
                            }
                        }
                    }
                }
            }
            OP_DROP => {
                drop_fut(env, &mut self.futs, id);
            }
            OP_TRY => {
                if self.prim_alive && !self.used[id] {
                    let m = self.prim_ref.unwrap();
                    let any_pending = env.any_pending(0, usize::MAX);
                    if any_pending {
                        env.fault("barge");
                    }
                    if let Some(r) = env.call("try_lock", || m.try_lock()) {
                        self.used[id] = true;
                        env.log.add(r.is_some() as u64);
                        if let Some(guard) = r {
                            if self.fair && any_pending {
                                env.fail("C04", "overtaken", "fair mutex: try_lock succeeded while lock futures are still pending".into(), false);
                            }
                            self.acquired(env, id, guard, "try_lock");
                        }
                    }
                }
            }
            OP_DROP_GUARD => {
                if let Some(g) = self.guards[id].take() {
                    if env.call("drop guard", || drop(g)).is_some() && self.holder == Some(id) {
                        self.holder = None;
                    }
                }
            }
            OP_POLL_COMPLETED => {
                poll_completed(env, &mut self.futs, id);
            }
            OP_DROP_PRIM => {
                if self.prim_alive && env.live.is_empty() && self.holder.is_none() {
                    self.prim_ref = None;
                    let root = self.root.take();
                    env.call("drop mutex", || drop(root));
                    self.prim_alive = false;
                }
            }
            _ => {}
        }
    }
}

impl<M: RawMutex + 'static> MutexWorld<M> {
    fn finish_impl(&mut self, env: &mut Env) {
        for id in env.live.clone() {
            run_finish_op(self, Op::new(OP_DROP, id as u32, 0, 0), env);
        }
        if let Some(h) = self.holder {
            run_finish_op(self, Op::new(OP_DROP_GUARD, h as u32, 0, 0), env);
        }
        if self.prim_alive {
            run_finish_op(self, Op::new(OP_DROP_PRIM, 0, 0, 0), env);
        }
    }
}

fn draw_cfg(rng: &mut Rng) -> Cfg {
    let mut c = Cfg::new();
    c.insert("flavour".into(), rng.below(2) as i64);
    c.insert("fair".into(), rng.below(2) as i64);
    // live futures: mostly few (small joint states recur), sometimes many (batch loops, deep heaps / queues)
    let k = if rng.pct(88) { rng.range(1, 6) } else { *rng.pick(&[8i64, 12]) };
    c.insert("k".into(), k);
    c.insert("len".into(), rng.range(8, 96));
    c.insert("realism".into(), *rng.pick(&[10, 50, 90]));
    let base = [140u32, 300, 100, 60, 120, 2];
    for (i, b) in base.iter().enumerate() {
        let f = *rng.pick(&[0u32, 1, 1, 1, 2, 3]);
        c.insert(WK[i].into(), (*b * f) as i64);
    }
    c.insert("w0".into(), cfg_get(&c, "w0", 140).max(70));
    c.insert("w1".into(), cfg_get(&c, "w1", 300).max(150));
    c.insert("w4".into(), cfg_get(&c, "w4", 120).max(40));
    c.insert("reentrant".into(), rng.pct(40) as i64);
    c
}

fn dispatch_gen(cfg: &Cfg, rng: &mut Rng, env: &mut Env) -> Vec<Op> {
    match cfg_get(cfg, "flavour", 0) {
        0 => generic_gen_run::<MutexWorld<NoopLock>>(cfg, rng, env),
        _ => generic_gen_run::<MutexWorld<PlLock>>(cfg, rng, env),
    }
}

fn dispatch_replay(cfg: &Cfg, ops: &[Op], env: &mut Env) {
    match cfg_get(cfg, "flavour", 0) {
        0 => generic_replay::<MutexWorld<NoopLock>>(cfg, ops, env),
        _ => generic_replay::<MutexWorld<PlLock>>(cfg, ops, env),
    }
}

fn shrink_cfg() -> Vec<(&'static str, Vec<i64>)> {
    vec![("flavour", vec![0]), ("reentrant", vec![0])]
}

fn shrink_op(op: Op) -> Vec<Op> {
    match op.k {
        OP_POLL if op.b != 0 && op.c != 0 => vec![Op { b: 0, ..op }, Op { c: 0, ..op }],
        OP_POLL if op.b != 0 => vec![Op { b: 0, ..op }],
        _ if op.c != 0 => vec![Op { c: 0, ..op }],
        _ => vec![],
    }
}

pub static DEF: WorldDef = WorldDef {
    name: "mutex",
    props: &["C01", "C02", "C03", "C04", "C17", "C18"],
    draw_cfg,
    gen_run: dispatch_gen,
    replay: dispatch_replay,
    op_name: |k| OP_NAMES.get(k as usize).copied().unwrap_or("?"),
    shrink_cfg,
    shrink_op,
};
