//! Oracles shared by all L1 worlds: C01 queue membership / structure from the guarded
//! snapshot, C17 `is_terminated`, C18 allocation counters, state fingerprints.

use crate::core::*;
use crate::rng::Hasher64;
use futures_intrusive::verif::Snapshot;

/// What the world knows about one queue of the snapshot.
pub struct QueueKind {
    pub name: &'static str,
    /// the future kinds (Slot.kind) whose nodes may be in this queue
    pub kinds: &'static [u8],
}

/// Result of resolving a node address: (slot id, future kind)
pub type Resolve<'a> = &'a dyn Fn(usize) -> Option<(usize, u8)>;

/// C01 (a)(b)(c). Returns for every queue the slot ids in queue order (oldest first).
pub fn c01_membership(env: &mut Env, snap: &Snapshot, resolve: Resolve<'_>, kinds: &[QueueKind]) -> Vec<Vec<usize>> {
    let mut orders: Vec<Vec<usize>> = Vec::with_capacity(snap.queues.len());
    let mut in_queue = [false; MAX_IDS];
    for q in &snap.queues {
        let qk = kinds.iter().find(|k| k.name == q.name);
        let mut order = Vec::with_capacity(q.nodes.len());
        for n in &q.nodes {
            match resolve(n.addr) {
                None => {
                    env.fail("C01", "dangling-node", format!("queue `{}` contains a node that belongs to no live future", q.name), true);
                }
                Some((id, kind)) => {
                    if let Some(qk) = qk {
                        if !qk.kinds.contains(&kind) {
                            env.fail("C01", "foreign-node", format!("queue `{}` contains future #{} of the wrong kind", q.name, id), true);
                        }
                    }
                    if in_queue[id] {
                        env.fail("C01", "duplicate-node", format!("future #{} is linked more than once (queue `{}`)", id, q.name), true);
                    }
                    in_queue[id] = true;
                    match env.slots[id].st {
                        St::Pending => {}
                        St::Fresh => env.fail("C01", "not-waiting-node", format!("queue `{}` contains future #{} which was never polled", q.name, id), false),
                        St::Done => env.fail("C01", "not-waiting-node", format!("queue `{}` contains future #{} which already completed", q.name, id), false),
                        _ => env.fail("C01", "dangling-node", format!("queue `{}` contains dropped future #{}", q.name, id), true),
                    }
                    order.push(id);
                }
            }
        }
        if let Some(e) = &q.error {
            let who = resolve(e.addr).map(|(id, _)| format!("future #{}", id)).unwrap_or_else(|| "no live future".to_string());
            let oracle = if e.what.contains("not alive") { "dangling-node" } else { "broken-links" };
            env.fail("C01", oracle, format!("queue `{}`: {} (node belongs to {})", q.name, e.what, who), true);
        }
        orders.push(order);
    }
    // (c) a pending future nobody has woken is reachable for a wake-up only through the queue
    for i in 0..env.live.len() {
        let id = env.live[i];
        let s = env.slots[id];
        if s.st == St::Pending && !s.uw() && !in_queue[id] && kinds.iter().any(|k| k.kinds.contains(&s.kind)) {
            env.fail("C01", "waiting-not-queued", format!("future #{} is pending and un-woken but not in any wait queue", id), false);
        }
    }
    orders
}

/// C17: `is_terminated()` must be true exactly after Ready / cancel().
pub fn c17_terminated(env: &mut Env, id: usize, is_terminated: bool) {
    let expect = env.slots[id].st == St::Done;
    if is_terminated != expect {
        env.fail("C17", "is-terminated", format!("future #{}: is_terminated() = {} but the future {} completed", id, is_terminated, if expect { "has" } else { "has not" }), false);
    }
}

#[derive(Clone, Copy, Default)]
pub struct AllocAllow {
    pub allocs: bool,
    pub deallocs: bool,
}

/// C18: allocator events inside the library calls of this operation.
pub fn c18_alloc(env: &mut Env, allow: AllocAllow, what: &str) {
    let c = env.alloc;
    if (c.allocs > 0 || c.reallocs > 0) && !allow.allocs {
        env.fail("C18", "alloc-in-call", format!("{}: {} allocation(s), {} reallocation(s) inside a library call", what, c.allocs, c.reallocs), false);
    }
    if c.deallocs > 0 && !allow.deallocs {
        env.fail("C18", "dealloc-in-call", format!("{}: {} deallocation(s) inside a library call", what, c.deallocs), false);
    }
    if c.allocs + c.deallocs + c.reallocs > 0 {
        env.probe("alloc_event_in_allowed_call");
    }
}

/// Fingerprint of the joint state: snapshot scalars, queues as sequences of
/// (node state, has_waker, aux, ledger state, woken), and the multiset of the other live
/// futures. Slot ids are deliberately not part of it.
pub fn state_hash(env: &Env, snap: Option<&Snapshot>, orders: &[Vec<usize>], model: &[u64]) -> u64 {
    let mut h = Hasher64::default();
    for m in model {
        h.add(*m);
    }
    let mut in_queue = [false; MAX_IDS];
    if let Some(snap) = snap {
        for (n, v) in &snap.scalars {
            h.add_str(n);
            h.add(*v);
        }
        for (qi, q) in snap.queues.iter().enumerate() {
            h.add(0xA0 + qi as u64);
            for (ni, n) in q.nodes.iter().enumerate() {
                h.add(n.state as u64 | (n.has_waker as u64) << 8);
                h.add(n.aux);
                if let Some(id) = orders.get(qi).and_then(|o| o.get(ni)) {
                    in_queue[*id] = true;
                    let s = env.slots[*id];
                    h.add(s.st as u64 | (s.uw() as u64) << 4 | (s.last_variant as u64) << 5);
                }
            }
        }
    }
    let mut rest: Vec<u64> = Vec::with_capacity(env.live.len());
    for id in env.live.iter().copied() {
        let s = env.slots[id];
        if s.alive() && !in_queue[id] {
            rest.push(s.kind as u64 | (s.st as u64) << 8 | (s.uw() as u64) << 12 | s.aux << 16);
        }
    }
    rest.sort_unstable();
    h.add(0xFF);
    for r in rest {
        h.add(r);
    }
    h.get()
}
