//! L1 world: oneshot and oneshot-broadcast channels (borrowed on NoopLock / parking_lot, shared).
//! Oracles: C12 (single value; one receiver or all), C11 (close semantics, shared handle
//! lifecycle), C01, C17, C18.

use super::common::{drop_fut, poll_completed, poll_fut, run_finish_op};
use super::oracle::{self, AllocAllow, QueueKind};
use super::{generic_gen_run, generic_replay, World, WorldDef};
use crate::core::*;
use crate::flavour::{NoopLock, PlLock};
use crate::rng::Rng;
use crate::val::{self, Val};
use futures_core::future::FusedFuture;
use futures_intrusive::channel::shared::{
    self, GenericOneshotBroadcastReceiver, GenericOneshotBroadcastSender, GenericOneshotReceiver, GenericOneshotSender, VerifOneshotBroadcastObserver,
    VerifOneshotObserver,
};
use futures_intrusive::channel::{ChannelReceiveFuture, ChannelSendError, CloseStatus, GenericOneshotBroadcastChannel, GenericOneshotChannel};
use futures_intrusive::verif::{IsLive, Snapshot};
use lock_api::RawMutex;
use std::future::Future;
use std::task::Poll;

pub const OP_NEW: u16 = 0;
pub const OP_POLL: u16 = 1;
pub const OP_DROP: u16 = 2;
pub const OP_SEND: u16 = 3;
pub const OP_CLOSE: u16 = 4;
pub const OP_DROP_TX: u16 = 5;
pub const OP_CLONE_RX: u16 = 6;
pub const OP_DROP_RX: u16 = 7;
pub const OP_POLL_COMPLETED: u16 = 8;
pub const OP_DROP_PRIM: u16 = 9;
const OP_NAMES: [&str; 10] = ["NewReceive", "Poll", "Drop", "Send", "Close", "DropSender", "CloneReceiver", "DropReceiver", "PollCompleted", "DropPrim"];
const NW: usize = 9;
const WK: [&str; NW] = ["w0", "w1", "w2", "w3", "w4", "w5", "w6", "w7", "w8"];
const MAX_HANDLES: usize = 3;

pub trait OneshotApi: 'static {
    type Root;
    type Tx;
    type Rx;
    type Obs;
    type Fut: Future<Output = Option<Val>> + FusedFuture;
    const SHARED: bool;
    const BROADCAST: bool;
    const RX_CLONE: bool;
    fn create() -> (Self::Root, Self::Tx, Self::Rx, Self::Obs);
    fn clone_rx(r: &Self::Rx) -> Option<Self::Rx>;
    fn send(t: &Self::Tx, v: Val) -> Result<(), ChannelSendError<Val>>;
    /// explicit close (borrowed flavours only)
    fn close(t: &Self::Tx) -> Option<CloseStatus>;
    fn receive(r: &Self::Rx) -> Self::Fut;
    fn snapshot(o: &Self::Obs, is_live: IsLive<'_>) -> Snapshot;
}

pub struct BorrowedOne<M>(std::marker::PhantomData<M>);
impl<M: RawMutex + 'static> OneshotApi for BorrowedOne<M> {
    type Root = Owned<GenericOneshotChannel<M, Val>>;
    type Tx = &'static GenericOneshotChannel<M, Val>;
    type Rx = &'static GenericOneshotChannel<M, Val>;
    type Obs = &'static GenericOneshotChannel<M, Val>;
    type Fut = ChannelReceiveFuture<'static, M, Val>;
    const SHARED: bool = false;
    const BROADCAST: bool = false;
    const RX_CLONE: bool = false;
    fn create() -> (Self::Root, Self::Tx, Self::Rx, Self::Obs) {
        let (b, r) = Owned::new(GenericOneshotChannel::<M, Val>::new());
        (b, r, r, r)
    }
    fn clone_rx(_r: &Self::Rx) -> Option<Self::Rx> {
        None
    }
    fn send(t: &Self::Tx, v: Val) -> Result<(), ChannelSendError<Val>> {
        t.send(v)
    }
    fn close(t: &Self::Tx) -> Option<CloseStatus> {
        Some(t.close())
    }
    fn receive(r: &Self::Rx) -> Self::Fut {
        r.receive()
    }
    fn snapshot(o: &Self::Obs, is_live: IsLive<'_>) -> Snapshot {
        o.verif_snapshot(is_live)
    }
}

pub struct BorrowedBroadcast<M>(std::marker::PhantomData<M>);
impl<M: RawMutex + 'static> OneshotApi for BorrowedBroadcast<M> {
    type Root = Owned<GenericOneshotBroadcastChannel<M, Val>>;
    type Tx = &'static GenericOneshotBroadcastChannel<M, Val>;
    type Rx = &'static GenericOneshotBroadcastChannel<M, Val>;
    type Obs = &'static GenericOneshotBroadcastChannel<M, Val>;
    type Fut = ChannelReceiveFuture<'static, M, Val>;
    const SHARED: bool = false;
    const BROADCAST: bool = true;
    const RX_CLONE: bool = false;
    fn create() -> (Self::Root, Self::Tx, Self::Rx, Self::Obs) {
        let (b, r) = Owned::new(GenericOneshotBroadcastChannel::<M, Val>::new());
        (b, r, r, r)
    }
    fn clone_rx(_r: &Self::Rx) -> Option<Self::Rx> {
        None
    }
    fn send(t: &Self::Tx, v: Val) -> Result<(), ChannelSendError<Val>> {
        t.send(v)
    }
    fn close(t: &Self::Tx) -> Option<CloseStatus> {
        Some(t.close())
    }
    fn receive(r: &Self::Rx) -> Self::Fut {
        r.receive()
    }
    fn snapshot(o: &Self::Obs, is_live: IsLive<'_>) -> Snapshot {
        o.verif_snapshot(is_live)
    }
}

pub struct SharedOne<M>(std::marker::PhantomData<M>);
impl<M: RawMutex + 'static> OneshotApi for SharedOne<M> {
    type Root = ();
    type Tx = GenericOneshotSender<M, Val>;
    type Rx = GenericOneshotReceiver<M, Val>;
    type Obs = VerifOneshotObserver<M, Val>;
    type Fut = shared::ChannelReceiveFuture<M, Val>;
    const SHARED: bool = true;
    const BROADCAST: bool = false;
    const RX_CLONE: bool = false;
    fn create() -> (Self::Root, Self::Tx, Self::Rx, Self::Obs) {
        let (tx, rx) = shared::generic_oneshot_channel::<M, Val>();
        let obs = tx.verif_observer();
        ((), tx, rx, obs)
    }
    fn clone_rx(_r: &Self::Rx) -> Option<Self::Rx> {
        None
    }
    fn send(t: &Self::Tx, v: Val) -> Result<(), ChannelSendError<Val>> {
        t.send(v)
    }
    fn close(_t: &Self::Tx) -> Option<CloseStatus> {
        None
    }
    fn receive(r: &Self::Rx) -> Self::Fut {
        r.receive()
    }
    fn snapshot(o: &Self::Obs, is_live: IsLive<'_>) -> Snapshot {
        o.verif_snapshot(is_live)
    }
}

pub struct SharedBroadcast<M>(std::marker::PhantomData<M>);
impl<M: RawMutex + 'static> OneshotApi for SharedBroadcast<M> {
    type Root = ();
    type Tx = GenericOneshotBroadcastSender<M, Val>;
    type Rx = GenericOneshotBroadcastReceiver<M, Val>;
    type Obs = VerifOneshotBroadcastObserver<M, Val>;
    type Fut = shared::ChannelReceiveFuture<M, Val>;
    const SHARED: bool = true;
    const BROADCAST: bool = true;
    const RX_CLONE: bool = true;
    fn create() -> (Self::Root, Self::Tx, Self::Rx, Self::Obs) {
        let (tx, rx) = shared::generic_oneshot_broadcast_channel::<M, Val>();
        let obs = tx.verif_observer();
        ((), tx, rx, obs)
    }
    fn clone_rx(r: &Self::Rx) -> Option<Self::Rx> {
        Some(r.clone())
    }
    fn send(t: &Self::Tx, v: Val) -> Result<(), ChannelSendError<Val>> {
        t.send(v)
    }
    fn close(_t: &Self::Tx) -> Option<CloseStatus> {
        None
    }
    fn receive(r: &Self::Rx) -> Self::Fut {
        r.receive()
    }
    fn snapshot(o: &Self::Obs, is_live: IsLive<'_>) -> Snapshot {
        o.verif_snapshot(is_live)
    }
}

#[derive(Clone, Copy, PartialEq, Eq, Debug)]
enum MState {
    Open,
    Sent { tag: u32, taken: bool },
    Closed,
}

pub struct OneshotWorld<A: OneshotApi> {
    futs: Arena<A::Fut>,
    tx: Option<A::Tx>,
    rxs: Vec<Option<A::Rx>>,
    obs: Option<A::Obs>,
    root: Option<A::Root>,
    prim_alive: bool,
    // model
    st: MState,
    /// the channel refuses sends (fulfilled or closed)
    newly_closed_seen: bool,
    any_close_seen: bool,
    n_rx: usize,
    used: [bool; MAX_IDS],
    expected_lib_drops: Vec<u32>,
    sent_tags: Vec<u32>,
    observer_on: bool,
    k: usize,
    realism: u64,
    weights: [u32; NW],
    next_id: usize,
    next_tag: u32,
    /// a burst of New / Poll pairs at the start of the run (many simultaneous waiters: batch loops)
    burst_left: u64,
    burst_poll: Option<usize>,
}

impl<A: OneshotApi> OneshotWorld<A> {
    fn owners(&self, env: &Env) -> usize {
        self.tx.is_some() as usize
            + self.rxs.iter().flatten().count()
            + self.obs.is_some() as usize
            + env.live.iter().filter(|id| matches!(env.slots[**id].st, St::Fresh | St::Pending)).count()
    }

    fn fulfilled(&self) -> bool {
        self.st != MState::Open
    }

    fn model_close(&mut self) {
        if self.st == MState::Open {
            self.st = MState::Closed;
        }
    }

    /// the value stored in the channel dies with the channel
    fn value_in_channel(&self) -> Option<u32> {
        match self.st {
            MState::Sent { tag, taken } if A::BROADCAST || !taken => Some(tag),
            _ => None,
        }
    }

    fn check(&mut self, env: &mut Env, op: Op, owners_before: usize) {
        env.collect_wakes();
        if env.has_fatal() {
            return;
        }
        let opname = OP_NAMES[op.k as usize];
        let dropped = val::drain_recent();
        let mut want = std::mem::take(&mut self.expected_lib_drops);
        want.sort_unstable();
        if dropped != want {
            env.fail("C12", "unexpected-drop", format!("{}: values dropped inside the library: {:?}, expected: {:?}", opname, dropped, want), true);
            return;
        }
        let owners_after = self.owners(env);
        let last_owner_gone = A::SHARED && owners_before > 0 && owners_after == 0;
        oracle::c18_alloc(env, AllocAllow { allocs: false, deallocs: last_owner_gone || op.k == OP_DROP_PRIM }, opname);
        for i in 0..env.live.len() {
            let id = env.live[i];
            let t = self.futs.get(id).is_terminated();
            oracle::c17_terminated(env, id, t);
        }
        // C12 / C11: every receiver pending at the moment of the send or close has been woken
        if self.fulfilled() {
            for i in 0..env.live.len() {
                let id = env.live[i];
                let s = env.slots[id];
                if s.st == St::Pending && !s.uw() {
                    let sent = matches!(self.st, MState::Sent { .. });
                    env.fail("C12", if sent { "send-did-not-wake" } else { "close-did-not-wake" }, format!("after {}: receiver #{} is pending on a {} channel but holds no wake-up through its latest waker", opname, id, if sent { "fulfilled" } else { "closed" }), false);
                    if !sent {
                        env.fail("C11", "close-did-not-wake", format!("after {}: receiver #{} is pending on a closed channel but holds no wake-up", opname, id), false);
                    }
                }
            }
        }
        if !self.prim_alive {
            return;
        }
        let obs = match &self.obs {
            Some(o) => o,
            None => return,
        };
        let futs = &self.futs;
        let snap = A::snapshot(obs, &mut |addr| futs.find(addr).is_some());
        let resolve = |addr: usize| futs.find(addr).map(|id| (id, 0u8));
        let orders = oracle::c01_membership(env, &snap, &resolve, &[QueueKind { name: "waiters", kinds: &[0] }]);
        if env.has_fatal() {
            return;
        }
        // C11: closed-ness is exactly the model's
        let f = snap.scalar("is_fulfilled").unwrap_or(0) != 0;
        if f != self.fulfilled() {
            env.fail(
                "C11",
                "closed-state",
                format!("after {}: the channel is {} but the model (sender alive: {}, {} receiver handle(s) alive, state {:?}) says {}", opname, if f { "closed/fulfilled" } else { "open" }, self.tx.is_some() || !A::SHARED, self.n_rx, self.st, if self.fulfilled() { "closed/fulfilled" } else { "open" }),
                true,
            );
            return;
        }
        let model = [matches!(self.st, MState::Open) as u64, matches!(self.st, MState::Closed) as u64, self.value_in_channel().is_some() as u64, self.n_rx as u64, self.tx.is_some() as u64];
        let sh = oracle::state_hash(env, Some(&snap), &orders, &model);
        env.push_state(sh, op.k);
    }

    fn consume(v: Val) -> u32 {
        let t = v.tag;
        drop(v);
        t
    }
}

impl<A: OneshotApi> World for OneshotWorld<A> {
    fn new(cfg: &Cfg, _env: &mut Env) -> Self {
        val::reset();
        let (root, tx, rx, obs) = A::create();
        let observer_on = !A::SHARED || cfg_get(cfg, "observer", 1) != 0;
        let mut rxs: Vec<Option<A::Rx>> = (0..MAX_HANDLES).map(|_| None).collect();
        rxs[0] = Some(rx);
        let mut weights = [0u32; NW];
        for (i, w) in weights.iter_mut().enumerate() {
            *w = cfg_get(cfg, WK[i], 10) as u32;
        }
        OneshotWorld {
            futs: Arena::new(),
            tx: Some(tx),
            rxs,
            obs: if observer_on { Some(obs) } else { None },
            root: Some(root),
            prim_alive: true,
            st: MState::Open,
            newly_closed_seen: false,
            any_close_seen: false,
            n_rx: 1,
            used: [false; MAX_IDS],
            expected_lib_drops: Vec::new(),
            sent_tags: Vec::new(),
            observer_on,
            k: cfg_get(cfg, "k", 3) as usize,
            realism: cfg_get(cfg, "realism", 50) as u64,
            weights,
            next_id: 0,
            next_tag: 1,
            burst_left: cfg_get(cfg, "burst", 0).max(0) as u64,
            burst_poll: None,
        }
    }

    fn gen(&mut self, rng: &mut Rng, env: &Env, teardown: bool) -> Option<Op> {
        let live = &env.live;
        let rxs: Vec<usize> = (0..MAX_HANDLES).filter(|i| self.rxs[*i].is_some()).collect();
        if teardown {
            let mut cands: Vec<Op> = live.iter().map(|id| Op::new(OP_DROP, *id as u32, 0, 0)).collect();
            if A::SHARED {
                if self.tx.is_some() {
                    cands.push(Op::new(OP_DROP_TX, 0, 0, 0));
                }
                for r in &rxs {
                    cands.push(Op::new(OP_DROP_RX, *r as u32, 0, 0));
                }
            }
            if cands.is_empty() {
                return if self.prim_alive { Some(Op::new(OP_DROP_PRIM, 0, 0, 0)) } else { None };
            }
            return Some(*rng.pick(&cands));
        }
        if (self.burst_left > 0 || self.burst_poll.is_some()) && self.next_id < MAX_IDS - 1 && !rxs.is_empty() {
            if let Some(id) = self.burst_poll.take() {
                return Some(Op::new(OP_POLL, id as u32, 0, 0));
            }
            self.burst_left -= 1;
            self.next_id += 1;
            let id = self.next_id - 1;
            self.burst_poll = Some(id);
            return Some(Op::new(OP_NEW, id as u32, *rng.pick(&rxs) as u32, 0));
        }
        let pollable: Vec<usize> = live.iter().copied().filter(|id| matches!(env.slots[*id].st, St::Fresh | St::Pending)).collect();
        let done: Vec<usize> = live.iter().copied().filter(|id| env.slots[*id].st == St::Done).collect();
        let mut w = self.weights;
        if pollable.len() >= self.k || self.next_id >= MAX_IDS - 1 || rxs.is_empty() {
            w[0] = 0;
        }
        if pollable.is_empty() {
            w[1] = 0;
        }
        if live.is_empty() {
            w[2] = 0;
        }
        if self.tx.is_none() || self.next_tag as usize >= val::MAX_TAGS - 1 {
            w[3] = 0;
        }
        if A::SHARED || self.tx.is_none() {
            w[4] = 0;
        }
        if !A::SHARED || self.tx.is_none() {
            w[5] = 0;
        }
        if !A::RX_CLONE || rxs.is_empty() || rxs.len() >= MAX_HANDLES {
            w[6] = 0;
        }
        if !A::SHARED || rxs.is_empty() {
            w[7] = 0;
        }
        if done.is_empty() {
            w[8] = 0;
        }
        if w.iter().all(|x| *x == 0) {
            return None;
        }
        Some(match rng.weighted(&w) as u16 {
            OP_NEW => {
                self.next_id += 1;
                Op::new(OP_NEW, (self.next_id - 1) as u32, *rng.pick(&rxs) as u32, 0)
            }
            OP_POLL => {
                let woken: Vec<usize> = pollable.iter().copied().filter(|id| env.slots[*id].uw() || env.slots[*id].st == St::Fresh).collect();
                let id = if !woken.is_empty() && rng.pct(self.realism) { *rng.pick(&woken) } else { *rng.pick(&pollable) };
                let v = if rng.pct(25) { rng.below(2) as u32 } else { env.slots[id].last_variant as u32 };
                Op::new(OP_POLL, id as u32, v, 0)
            }
            OP_DROP => {
                let pend: Vec<usize> = live.iter().copied().filter(|id| env.slots[*id].st == St::Pending).collect();
                let id = if !pend.is_empty() && rng.pct(70) { *rng.pick(&pend) } else { *rng.pick(live) };
                Op::new(OP_DROP, id as u32, 0, 0)
            }
            OP_SEND => {
                self.next_tag += 1;
                Op::new(OP_SEND, 0, 0, (self.next_tag - 1) as u64)
            }
            OP_CLOSE => Op::new(OP_CLOSE, 0, 0, 0),
            OP_DROP_TX => Op::new(OP_DROP_TX, 0, 0, 0),
            OP_CLONE_RX => Op::new(OP_CLONE_RX, (0..MAX_HANDLES).find(|i| self.rxs[*i].is_none()).unwrap() as u32, *rng.pick(&rxs) as u32, 0),
            OP_DROP_RX => Op::new(OP_DROP_RX, *rng.pick(&rxs) as u32, 0, 0),
            _ => Op::new(OP_POLL_COMPLETED, *rng.pick(&done) as u32, 0, 0),
        })
    }

    fn exec(&mut self, op: Op, env: &mut Env) {
        let id = op.a as usize % MAX_IDS;
        let hidx = op.b as usize % MAX_HANDLES;
        let owners_before = self.owners(env);
        match op.k {
            OP_NEW => {
                if self.prim_alive && !self.used[id] {
                    if let Some(rx) = self.rxs[hidx].as_ref() {
                        if let Some(f) = env.call("receive", || A::receive(rx)) {
                            self.used[id] = true;
                            self.futs.put(id, f);
                            env.slot_create(id, 0, 0);
                            if matches!(self.st, MState::Sent { .. }) {
                                env.fault("receive_started_after_send");
                            }
                        }
                    }
                }
            }
            OP_POLL => {
                if let Some(out) = poll_fut(env, &mut self.futs, id, (op.b & 1) as u8) {
                    let may_stay = !out.was_fresh && !out.had_uw;
                    match out.res {
                        None => {}
                        Some(Poll::Ready(r)) => {
                            env.end_poll(id, true);
                            let got = r.map(Self::consume);
                            match (got, self.st) {
                                (Some(t), MState::Sent { tag, taken }) if t == tag && (A::BROADCAST || !taken) => {
                                    if !A::BROADCAST {
                                        self.st = MState::Sent { tag, taken: true };
                                    }
                                    env.probe("value_received");
                                }
                                (Some(t), MState::Sent { tag, .. }) if t == tag => {
                                    env.fail("C12", "value-delivered-twice", format!("receive future #{} yielded value {} which another receive already took (single-consumer oneshot)", id, t), true);
                                }
                                (Some(t), s) => {
                                    env.fail("C12", "phantom-value", format!("receive future #{} yielded value {} but the channel state is {:?}", id, t, s), true);
                                }
                                (None, MState::Closed) => {}
                                (None, MState::Sent { taken: true, .. }) if !A::BROADCAST => {
                                    env.probe("late_receiver_gets_none");
                                }
                                (None, MState::Sent { tag, .. }) => {
                                    env.fail("C12", "value-not-delivered", format!("receive future #{} yielded None although value {} was sent{}", id, tag, if A::BROADCAST { " (broadcast: every receive must get a clone)" } else { " and nobody took it" }), true);
                                }
                                (None, MState::Open) => {
                                    env.fail("C11", "closed-while-open", format!("receive future #{} yielded None although the channel is open (sender alive: {}, {} receiver handle(s) alive)", id, self.tx.is_some(), self.n_rx), true);
                                }
                            }
                        }
                        Some(Poll::Pending) => {
                            env.end_poll(id, false);
                            if self.fulfilled() && !may_stay {
                                env.fail("C12", "receive-stays-pending", format!("receive future #{} stayed pending although the channel state is {:?}", id, self.st), true);
                            }
                        }
                    }
                }
            }
            OP_DROP => {
                drop_fut(env, &mut self.futs, id);
            }
            OP_SEND => {
                let tag = (op.c as usize % val::MAX_TAGS) as u32;
                if self.prim_alive && tag != 0 && !self.sent_tags.contains(&tag) {
                    if let Some(tx) = self.tx.as_ref() {
                        if env.any_pending(0, usize::MAX) {
                            env.fault("send_with_pending_receivers");
                        }
                        if let Some(r) = env.call("send", || A::send(tx, Val::new(tag))) {
                            self.sent_tags.push(tag);
                            match r {
                                Ok(()) => {
                                    env.log.add(1);
                                    if self.st != MState::Open {
                                        let (p, o) = if matches!(self.st, MState::Closed) { ("C11", "send-after-close-succeeded") } else { ("C12", "second-send-succeeded") };
                                        env.fail(p, o, format!("send({}) succeeded although the channel state is {:?}", tag, self.st), true);
                                    } else {
                                        self.st = MState::Sent { tag, taken: false };
                                    }
                                }
                                Err(ChannelSendError(v)) => {
                                    let got = Self::consume(v);
                                    env.log.add(2);
                                    if got != tag {
                                        env.fail("C12", "wrong-value-handed-back", format!("send({}) failed and handed back value {}", tag, got), true);
                                    } else if self.st == MState::Open {
                                        env.fail("C11", "send-failed-while-open", format!("send({}) failed although the channel is open and empty (sender alive: {}, {} receiver handle(s) alive)", tag, self.tx.is_some(), self.n_rx), true);
                                    }
                                }
                            }
                        }
                    }
                }
            }
            OP_CLOSE => {
                if self.prim_alive {
                    if let Some(tx) = self.tx.as_ref() {
                        if let Some(Some(status)) = env.call("close", || A::close(tx)) {
                            env.log.add(status.is_newly_closed() as u64);
                            if env.any_pending(0, usize::MAX) {
                                env.fault("close_with_pending_recv");
                            }
                            let newly = status.is_newly_closed();
                            if newly && (self.newly_closed_seen || self.any_close_seen) {
                                env.fail("C11", "close-status", "close() returned NewlyClosed after an earlier close".into(), true);
                            } else if !newly && self.st == MState::Open {
                                env.fail("C11", "close-status", "the first close() of a never-closed, unfulfilled channel returned AlreadyClosed".into(), true);
                            } else if newly && matches!(self.st, MState::Closed) {
                                env.fail("C11", "close-status", "close() returned NewlyClosed on a closed channel".into(), true);
                            }
                            self.newly_closed_seen |= newly;
                            self.any_close_seen = true;
                            self.model_close();
                        }
                    }
                }
            }
            OP_DROP_TX => {
                if A::SHARED {
                    if let Some(t) = self.tx.take() {
                        if env.any_pending(0, usize::MAX) {
                            env.fault("handle_drop_with_pending_future");
                        }
                        self.model_close();
                        env.call("drop sender", || drop(t));
                    }
                }
            }
            OP_CLONE_RX => {
                let dst = op.a as usize % MAX_HANDLES;
                if A::RX_CLONE && self.rxs[dst].is_none() {
                    let c = match self.rxs[hidx].as_ref() {
                        Some(r) => env.call("clone receiver", || A::clone_rx(r)).flatten(),
                        None => None,
                    };
                    if c.is_some() {
                        self.rxs[dst] = c;
                        self.n_rx += 1;
                    }
                }
            }
            OP_DROP_RX => {
                let idx = op.a as usize % MAX_HANDLES;
                if A::SHARED {
                    if let Some(r) = self.rxs[idx].take() {
                        if env.any_pending(0, usize::MAX) {
                            env.fault("handle_drop_with_pending_future");
                        }
                        self.n_rx -= 1;
                        if self.n_rx == 0 {
                            self.model_close();
                            env.fault("last_receiver_dropped");
                        } else {
                            env.fault("one_of_several_receivers_dropped");
                        }
                        env.call("drop receiver", || drop(r));
                    }
                }
            }
            OP_POLL_COMPLETED => {
                poll_completed(env, &mut self.futs, id);
            }
            OP_DROP_PRIM => {
                if self.prim_alive && env.live.is_empty() && (!A::SHARED || (self.tx.is_none() && self.n_rx == 0)) {
                    if let Some(t) = self.value_in_channel() {
                        self.expected_lib_drops.push(t);
                    }
                    if !A::SHARED {
                        self.tx = None;
                        self.rxs[0] = None;
                    }
                    // borrowed flavours: `obs` is a plain reference into the root; it must not be
                    // alive (not even captured) while the root is freed
                    let obs = if A::SHARED { self.obs.take() } else { None };
                    self.obs = None;
                    let root = self.root.take();
                    env.call("drop channel", || {
                        drop(obs);
                        drop(root);
                    });
                    self.prim_alive = false;
                }
            }
            _ => {}
        }
        if A::SHARED && !self.observer_on && self.prim_alive && owners_before > 0 && self.owners(env) == 0 {
            if let Some(t) = self.value_in_channel() {
                self.expected_lib_drops.push(t);
            }
            self.prim_alive = false;
        }
        self.check(env, op, owners_before);
    }

    fn finish(&mut self, env: &mut Env) {
        for id in env.live.clone() {
            run_finish_op(self, Op::new(OP_DROP, id as u32, 0, 0), env);
        }
        if A::SHARED {
            if self.tx.is_some() {
                run_finish_op(self, Op::new(OP_DROP_TX, 0, 0, 0), env);
            }
            for h in 0..MAX_HANDLES {
                if self.rxs[h].is_some() {
                    run_finish_op(self, Op::new(OP_DROP_RX, h as u32, 0, 0), env);
                }
            }
        }
        if self.prim_alive {
            run_finish_op(self, Op::new(OP_DROP_PRIM, 0, 0, 0), env);
        }
        if env.has_fatal() {
            return;
        }
        // payload accounting: every instance (original + clones) dropped exactly once
        for tag in self.sent_tags.clone() {
            let (lib, own, clones) = val::counts(tag);
            if lib + own != 1 + clones {
                env.fail("C12", "drop-count", format!("value {}: {} instance(s) created (1 + {} clone(s)) but {} dropped ({} inside the library, {} by the harness)", tag, 1 + clones, clones, lib + own, lib, own), false);
            }
            if !A::BROADCAST && clones != 0 {
                env.fail("C12", "unexpected-clone", format!("single-consumer oneshot cloned value {}", tag), false);
            }
        }
    }
}

fn draw_cfg(rng: &mut Rng) -> Cfg {
    let mut c = Cfg::new();
    c.insert("flavour".into(), rng.below(NFLAV as u64) as i64);
    // live futures: mostly few (small joint states recur), sometimes many (batch loops, deep heaps / queues)
    let k = if rng.pct(88) { rng.range(1, 5) } else { *rng.pick(&[7i64, 10]) };
    c.insert("k".into(), k);
    c.insert("len".into(), rng.range(6, 48));
    c.insert("realism".into(), *rng.pick(&[10, 50, 90]));
    c.insert("observer".into(), rng.pct(80) as i64);
    let base = [200u32, 300, 80, 60, 30, 30, 60, 60, 2];
    for (i, b) in base.iter().enumerate() {
        let f = *rng.pick(&[0u32, 1, 1, 1, 2, 3]);
        c.insert(WK[i].into(), (*b * f) as i64);
    }
    // rarely: more than 32 simultaneous waiters (typical size of a waker batch)
    let burst = if rng.pct(4) { *rng.pick(&[33i64, 34, 40]) } else { 0 };
    c.insert("burst".into(), burst);
    let len0 = cfg_get(&c, "len", 32);
    c.insert("len".into(), len0 + 2 * burst);
    c.insert("w0".into(), cfg_get(&c, "w0", 200).max(100));
    c.insert("w1".into(), cfg_get(&c, "w1", 300).max(150));
    c
}

const NFLAV: usize = 8;

macro_rules! dispatch {
    ($f:ident, $cfg:expr, $($arg:expr),*) => {
        match cfg_get($cfg, "flavour", 0) {
            0 => $f::<OneshotWorld<BorrowedOne<NoopLock>>>($cfg, $($arg),*),
            1 => $f::<OneshotWorld<BorrowedOne<PlLock>>>($cfg, $($arg),*),
            2 => $f::<OneshotWorld<SharedOne<PlLock>>>($cfg, $($arg),*),
            3 => $f::<OneshotWorld<BorrowedBroadcast<NoopLock>>>($cfg, $($arg),*),
            4 => $f::<OneshotWorld<BorrowedBroadcast<PlLock>>>($cfg, $($arg),*),
            5 => $f::<OneshotWorld<SharedBroadcast<PlLock>>>($cfg, $($arg),*),
            6 => $f::<OneshotWorld<SharedBroadcast<NoopLock>>>($cfg, $($arg),*),
            _ => $f::<OneshotWorld<SharedOne<NoopLock>>>($cfg, $($arg),*),
        }
    };
}

fn dispatch_gen(cfg: &Cfg, rng: &mut Rng, env: &mut Env) -> Vec<Op> {
    dispatch!(generic_gen_run, cfg, rng, env)
}

fn dispatch_replay(cfg: &Cfg, ops: &[Op], env: &mut Env) {
    dispatch!(generic_replay, cfg, ops, env)
}

fn shrink_cfg() -> Vec<(&'static str, Vec<i64>)> {
    vec![("observer", vec![1])]
}

fn shrink_op(op: Op) -> Vec<Op> {
    match op.k {
        OP_POLL if op.b != 0 => vec![Op { b: 0, ..op }],
        _ => vec![],
    }
}

pub static DEF: WorldDef = WorldDef {
    name: "oneshot",
    props: &["C01", "C11", "C12", "C17", "C18"],
    draw_cfg,
    gen_run: dispatch_gen,
    replay: dispatch_replay,
    op_name: |k| OP_NAMES.get(k as usize).copied().unwrap_or("?"),
    shrink_cfg,
    shrink_op,
};
