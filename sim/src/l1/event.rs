//! L1 world: ManualResetEvent (NoopLock and parking_lot).
//! Oracles: C14 (wait completes iff set while waiting; set wakes all; reset wakes none), C01, C17, C18.

use super::common::{drop_fut, poll_completed, poll_fut, run_finish_op};
use super::oracle::{self, AllocAllow, QueueKind};
use super::{generic_gen_run, generic_replay, World, WorldDef};
use crate::core::*;
use crate::flavour::{NoopLock, PlLock};
use crate::rng::Rng;
use futures_core::future::FusedFuture;
use futures_intrusive::sync::{GenericManualResetEvent, GenericWaitForEventFuture};
use lock_api::RawMutex;
use std::task::Poll;

pub const OP_NEW: u16 = 0;
pub const OP_POLL: u16 = 1;
pub const OP_DROP: u16 = 2;
pub const OP_SET: u16 = 3;
pub const OP_RESET: u16 = 4;
pub const OP_POLL_COMPLETED: u16 = 5;
pub const OP_DROP_PRIM: u16 = 6;
const OP_NAMES: [&str; 7] = ["New", "Poll", "Drop", "Set", "Reset", "PollCompleted", "DropPrim"];
const NW: usize = 6;
const WK: [&str; NW] = ["w0", "w1", "w2", "w3", "w4", "w5"];

pub struct EventWorld<M: RawMutex + 'static> {
    futs: Arena<GenericWaitForEventFuture<'static, M>>,
    prim_ref: Option<&'static GenericManualResetEvent<M>>,
    root: Option<Owned<GenericManualResetEvent<M>>>,
    prim_alive: bool,
    // model
    is_set: bool,
    latched: [bool; MAX_IDS],
    used: [bool; MAX_IDS],
    k: usize,
    realism: u64,
    weights: [u32; NW],
    next_id: usize,
    /// a burst of New / Poll pairs at the start of the run (many simultaneous waiters: batch loops)
    burst_left: u64,
    burst_poll: Option<usize>,
}

impl<M: RawMutex + 'static> EventWorld<M> {
    fn check(&mut self, env: &mut Env, op: Op) {
        let wakes_before = env.wakes.len();
        env.collect_wakes();
        if env.has_fatal() {
            return;
        }
        oracle::c18_alloc(env, AllocAllow { allocs: false, deallocs: op.k == OP_DROP_PRIM }, OP_NAMES[op.k as usize]);
        for i in 0..env.live.len() {
            let id = env.live[i];
            let t = self.futs.get(id).is_terminated();
            oracle::c17_terminated(env, id, t);
        }
        // reset() (and everything except set()) wakes nobody
        if op.k != OP_SET && env.wakes.len() > wakes_before {
            env.fail("C14", "unexpected-wake", format!("{} woke {} waiter(s); only set() may wake", OP_NAMES[op.k as usize], env.wakes.len() - wakes_before), false);
        }
        if !self.prim_alive {
            return;
        }
        let s = self.prim_ref.unwrap().is_set();
        if s != self.is_set {
            env.fail("C14", "is-set", format!("is_set() = {} but the last set/reset left it {}", s, self.is_set), true);
            return;
        }
        let futs = &self.futs;
        let snap = self.prim_ref.unwrap().verif_snapshot(&mut |addr| futs.find(addr).is_some());
        let resolve = |addr: usize| futs.find(addr).map(|id| (id, 0u8));
        let orders = oracle::c01_membership(env, &snap, &resolve, &[QueueKind { name: "waiters", kinds: &[0] }]);
        if env.has_fatal() {
            return;
        }
        // every waiter that was pending at a set() holds a wake-up through its latest waker
        for i in 0..env.live.len() {
            let id = env.live[i];
            let sl = env.slots[id];
            if sl.st == St::Pending && self.latched[id] && !sl.uw() {
                env.fail("C14", "set-did-not-wake", format!("after {}: waiter #{} was pending when the event was set but holds no wake-up through its latest waker", OP_NAMES[op.k as usize], id), false);
            }
        }
        let model = [self.is_set as u64];
        let sh = oracle::state_hash(env, Some(&snap), &orders, &model);
        env.push_state(sh, op.k);
    }
}

impl<M: RawMutex + 'static> World for EventWorld<M> {
    fn new(cfg: &Cfg, _env: &mut Env) -> Self {
        let is_set = cfg_get(cfg, "initial_set", 0) != 0;
        let (root, prim_ref) = Owned::new(GenericManualResetEvent::<M>::new(is_set));
        let mut weights = [0u32; NW];
        for (i, w) in weights.iter_mut().enumerate() {
            *w = cfg_get(cfg, WK[i], 10) as u32;
        }
        EventWorld {
            futs: Arena::new(),
            prim_ref: Some(prim_ref),
            root: Some(root),
            prim_alive: true,
            is_set,
            latched: [false; MAX_IDS],
            used: [false; MAX_IDS],
            k: cfg_get(cfg, "k", 3) as usize,
            realism: cfg_get(cfg, "realism", 50) as u64,
            weights,
            next_id: 0,
            burst_left: cfg_get(cfg, "burst", 0).max(0) as u64,
            burst_poll: None,
        }
    }

    fn gen(&mut self, rng: &mut Rng, env: &Env, teardown: bool) -> Option<Op> {
        let live = &env.live;
        if teardown {
            if live.is_empty() {
                return if self.prim_alive { Some(Op::new(OP_DROP_PRIM, 0, 0, 0)) } else { None };
            }
            return Some(Op::new(OP_DROP, *rng.pick(live) as u32, 0, 0));
        }
        if (self.burst_left > 0 || self.burst_poll.is_some()) && self.next_id < MAX_IDS - 1 {
            if let Some(id) = self.burst_poll.take() {
                return Some(Op::new(OP_POLL, id as u32, 0, 0));
            }
            self.burst_left -= 1;
            self.next_id += 1;
            let id = self.next_id - 1;
            self.burst_poll = Some(id);
            return Some(Op::new(OP_NEW, id as u32, 0, 0));
        }
        let pollable: Vec<usize> = live.iter().copied().filter(|id| matches!(env.slots[*id].st, St::Fresh | St::Pending)).collect();
        let done: Vec<usize> = live.iter().copied().filter(|id| env.slots[*id].st == St::Done).collect();
        let mut w = self.weights;
        if pollable.len() >= self.k || self.next_id >= MAX_IDS - 1 {
            w[0] = 0;
        }
        if pollable.is_empty() {
            w[1] = 0;
        }
        if live.is_empty() {
            w[2] = 0;
        }
        if done.is_empty() {
            w[5] = 0;
        }
        if w.iter().all(|x| *x == 0) {
            return None;
        }
        Some(match rng.weighted(&w) as u16 {
            OP_NEW => {
                self.next_id += 1;
                Op::new(OP_NEW, (self.next_id - 1) as u32, 0, 0)
            }
            OP_POLL => {
                let woken: Vec<usize> = pollable.iter().copied().filter(|id| env.slots[*id].uw() || env.slots[*id].st == St::Fresh).collect();
                let id = if !woken.is_empty() && rng.pct(self.realism) { *rng.pick(&woken) } else { *rng.pick(&pollable) };
                let v = if rng.pct(25) { rng.below(2) as u32 } else { env.slots[id].last_variant as u32 };
                Op::new(OP_POLL, id as u32, v, 0)
            }
            OP_DROP => {
                let pend: Vec<usize> = live.iter().copied().filter(|id| env.slots[*id].st == St::Pending).collect();
                let id = if !pend.is_empty() && rng.pct(70) { *rng.pick(&pend) } else { *rng.pick(live) };
                Op::new(OP_DROP, id as u32, 0, 0)
            }
            OP_SET => Op::new(OP_SET, 0, 0, 0),
            OP_RESET => Op::new(OP_RESET, 0, 0, 0),
            _ => Op::new(OP_POLL_COMPLETED, *rng.pick(&done) as u32, 0, 0),
        })
    }

    fn exec(&mut self, op: Op, env: &mut Env) {
        let id = op.a as usize % MAX_IDS;
        match op.k {
            OP_NEW => {
                if self.prim_alive && !self.used[id] {
                    let e = self.prim_ref.unwrap();
                    if let Some(f) = env.call("wait", || e.wait()) {
                        self.used[id] = true;
                        self.futs.put(id, f);
                        env.slot_create(id, 0, 0);
                    }
                }
            }
            OP_POLL => {
                if let Some(out) = poll_fut(env, &mut self.futs, id, (op.b & 1) as u8) {
                    let must_complete = if out.was_fresh { self.is_set } else { self.latched[id] };
                    match out.res {
                        None => {}
                        Some(Poll::Ready(())) => {
                            env.end_poll(id, true);
                            if !must_complete {
                                env.fail("C14", "completed-without-set", format!("waiter #{} completed although the event was not set at any of its polls nor since its first poll", id), true);
                            }
                            if !out.was_fresh && !self.is_set {
                                env.probe("completed_after_set_then_reset");
                            }
                        }
                        Some(Poll::Pending) => {
                            env.end_poll(id, false);
                            if must_complete {
                                env.fail("C14", "missed-set", format!("waiter #{} stayed pending although the event {}", id, if out.was_fresh { "is set" } else { "was set after its first poll" }), true);
                            }
                        }
                    }
                }
            }
            OP_DROP => {
                if drop_fut(env, &mut self.futs, id) {
                    self.latched[id] = false;
                }
            }
            OP_SET => {
                if self.prim_alive {
                    let e = self.prim_ref.unwrap();
                    if env.call("set", || e.set()).is_some() {
                        self.is_set = true;
                        let mut n = 0;
                        for i in 0..env.live.len() {
                            let f = env.live[i];
                            if env.slots[f].st == St::Pending {
                                if !self.latched[f] {
                                    n += 1;
                                }
                                self.latched[f] = true;
                            }
                        }
                        if n > 0 {
                            env.fault("set_with_pending_waiters");
                        }
                    }
                }
            }
            OP_RESET => {
                if self.prim_alive {
                    let e = self.prim_ref.unwrap();
                    if env.call("reset", || e.reset()).is_some() {
                        if self.is_set && env.live.iter().any(|f| env.slots[*f].st == St::Pending && self.latched[*f]) {
                            env.fault("reset_before_woken_waiter_polled");
                        }
                        self.is_set = false;
                    }
                }
            }
            OP_POLL_COMPLETED => {
                poll_completed(env, &mut self.futs, id);
            }
            OP_DROP_PRIM => {
                if self.prim_alive && env.live.is_empty() {
                    self.prim_ref = None;
                    let root = self.root.take();
                    env.call("drop event", || drop(root));
                    self.prim_alive = false;
                }
            }
            _ => {}
        }
        self.check(env, op);
    }

    fn finish(&mut self, env: &mut Env) {
        for id in env.live.clone() {
            run_finish_op(self, Op::new(OP_DROP, id as u32, 0, 0), env);
        }
        if self.prim_alive {
            run_finish_op(self, Op::new(OP_DROP_PRIM, 0, 0, 0), env);
        }
    }
}

fn draw_cfg(rng: &mut Rng) -> Cfg {
    let mut c = Cfg::new();
    c.insert("flavour".into(), rng.below(2) as i64);
    c.insert("initial_set".into(), rng.pct(30) as i64);
    // live futures: mostly few (small joint states recur), sometimes many (batch loops, deep heaps / queues)
    let k = if rng.pct(88) { rng.range(1, 6) } else { *rng.pick(&[8i64, 12]) };
    c.insert("k".into(), k);
    c.insert("len".into(), rng.range(8, 96));
    c.insert("realism".into(), *rng.pick(&[10, 50, 90]));
    let base = [140u32, 300, 80, 80, 80, 2];
    for (i, b) in base.iter().enumerate() {
        let f = *rng.pick(&[0u32, 1, 1, 1, 2, 3]);
        c.insert(WK[i].into(), (*b * f) as i64);
    }
    // rarely: more than 32 simultaneous waiters (typical size of a waker batch)
    let burst = if rng.pct(4) { *rng.pick(&[33i64, 34, 40]) } else { 0 };
    c.insert("burst".into(), burst);
    let len0 = cfg_get(&c, "len", 32);
    c.insert("len".into(), len0 + 2 * burst);
    c.insert("w0".into(), cfg_get(&c, "w0", 140).max(70));
    c.insert("w1".into(), cfg_get(&c, "w1", 300).max(150));
    c
}

fn dispatch_gen(cfg: &Cfg, rng: &mut Rng, env: &mut Env) -> Vec<Op> {
    match cfg_get(cfg, "flavour", 0) {
        0 => generic_gen_run::<EventWorld<NoopLock>>(cfg, rng, env),
        _ => generic_gen_run::<EventWorld<PlLock>>(cfg, rng, env),
    }
}

fn dispatch_replay(cfg: &Cfg, ops: &[Op], env: &mut Env) {
    match cfg_get(cfg, "flavour", 0) {
        0 => generic_replay::<EventWorld<NoopLock>>(cfg, ops, env),
        _ => generic_replay::<EventWorld<PlLock>>(cfg, ops, env),
    }
}

fn shrink_cfg() -> Vec<(&'static str, Vec<i64>)> {
    vec![("flavour", vec![0]), ("initial_set", vec![0])]
}

fn shrink_op(op: Op) -> Vec<Op> {
    match op.k {
        OP_POLL if op.b != 0 => vec![Op { b: 0, ..op }],
        _ => vec![],
    }
}

pub static DEF: WorldDef = WorldDef {
    name: "event",
    props: &["C01", "C14", "C17", "C18"],
    draw_cfg,
    gen_run: dispatch_gen,
    replay: dispatch_replay,
    op_name: |k| OP_NAMES.get(k as usize).copied().unwrap_or("?"),
    shrink_cfg,
    shrink_op,
};
