//! L1 world: timer service (LocalTimer on NoopLock, Timer on parking_lot; SimClock / MockClock).
//! Oracles: C15 (never early, nothing due missed, deadline order, exact next_expiration,
//! delay == deadline(now+d) saturating), C01 (pairing heap structure + membership), C17, C18.

use super::common::{drop_fut, poll_completed, poll_fut, run_finish_op};
use super::oracle::{self, AllocAllow, QueueKind};
use super::{generic_gen_run, generic_replay, World, WorldDef};
use crate::clock::ClockRef;
use crate::core::*;
use crate::flavour::{NoopLock, PlLock};
use crate::rng::Rng;
use futures_core::future::FusedFuture;
use futures_intrusive::timer::{GenericTimerService, LocalTimer, LocalTimerFuture, Timer, TimerFuture};
use futures_intrusive::verif::{IsLive, Snapshot};
use std::future::Future;
use std::task::Poll;
use std::time::Duration;

pub const OP_NEW_DEADLINE: u16 = 0;
pub const OP_POLL: u16 = 1;
pub const OP_DROP: u16 = 2;
pub const OP_NEW_DELAY: u16 = 3;
pub const OP_ADVANCE: u16 = 4;
pub const OP_CHECK: u16 = 5;
pub const OP_POLL_COMPLETED: u16 = 6;
pub const OP_DROP_PRIM: u16 = 7;
const OP_NAMES: [&str; 8] = ["NewDeadline", "Poll", "Drop", "NewDelay", "AdvanceTo", "CheckExpirations", "PollCompleted", "DropPrim"];
const NW: usize = 7;
const WK: [&str; NW] = ["w0", "w1", "w2", "w3", "w4", "w5", "w6"];

pub trait TimerApi: 'static {
    type Fut: Future<Output = ()> + FusedFuture;
    fn create(clock: ClockRef) -> Self;
    fn deadline(&'static self, t: u64) -> Self::Fut;
    fn delay(&'static self, d: Duration) -> Self::Fut;
    fn next_expiration(&self) -> Option<u64>;
    fn check_expirations(&self);
    fn snapshot(&self, is_live: IsLive<'_>) -> Snapshot;
}

impl TimerApi for GenericTimerService<NoopLock> {
    type Fut = LocalTimerFuture<'static>;
    fn create(clock: ClockRef) -> Self {
        GenericTimerService::new(clock.as_dyn())
    }
    fn deadline(&'static self, t: u64) -> Self::Fut {
        LocalTimer::deadline(self, t)
    }
    fn delay(&'static self, d: Duration) -> Self::Fut {
        LocalTimer::delay(self, d)
    }
    fn next_expiration(&self) -> Option<u64> {
        GenericTimerService::next_expiration(self)
    }
    fn check_expirations(&self) {
        GenericTimerService::check_expirations(self)
    }
    fn snapshot(&self, is_live: IsLive<'_>) -> Snapshot {
        self.verif_snapshot(is_live)
    }
}

impl TimerApi for GenericTimerService<PlLock> {
    type Fut = TimerFuture<'static>;
    fn create(clock: ClockRef) -> Self {
        GenericTimerService::new(clock.as_dyn())
    }
    fn deadline(&'static self, t: u64) -> Self::Fut {
        Timer::deadline(self, t)
    }
    fn delay(&'static self, d: Duration) -> Self::Fut {
        Timer::delay(self, d)
    }
    fn next_expiration(&self) -> Option<u64> {
        GenericTimerService::next_expiration(self)
    }
    fn check_expirations(&self) {
        GenericTimerService::check_expirations(self)
    }
    fn snapshot(&self, is_live: IsLive<'_>) -> Snapshot {
        self.verif_snapshot(is_live)
    }
}

pub struct TimerWorld<A: TimerApi> {
    futs: Arena<A::Fut>,
    prim_ref: Option<&'static A>,
    root: Option<Owned<A>>,
    prim_alive: bool,
    clock: ClockRef,
    // model
    now: u64,
    deadline: [u64; MAX_IDS],
    /// registered in the timer's queue (first poll returned Pending, not expired yet)
    registered: [bool; MAX_IDS],
    /// a check_expirations() that observed clock >= deadline happened since registration
    expired: [bool; MAX_IDS],
    stale_since: u32,
    used: [bool; MAX_IDS],
    k: usize,
    realism: u64,
    weights: [u32; NW],
    next_id: usize,
    /// a burst of New / Poll pairs at the start of the run (many simultaneous waiters: batch loops)
    burst_left: u64,
    burst_poll: Option<usize>,
    alphabet: Vec<u64>,
}

impl<A: TimerApi> TimerWorld<A> {
    fn model_next(&self, env: &Env) -> Option<u64> {
        env.live.iter().filter(|id| self.registered[**id] && !self.expired[**id]).map(|id| self.deadline[*id]).min()
    }

    fn check(&mut self, env: &mut Env, op: Op) {
        env.collect_wakes();
        if env.has_fatal() {
            return;
        }
        oracle::c18_alloc(env, AllocAllow { allocs: false, deallocs: op.k == OP_DROP_PRIM }, OP_NAMES[op.k as usize]);
        for i in 0..env.live.len() {
            let id = env.live[i];
            let t = self.futs.get(id).is_terminated();
            oracle::c17_terminated(env, id, t);
        }
        if op.k != OP_CHECK && !env.wakes.is_empty() {
            env.fail("C15", "unexpected-wake", format!("{} woke {} timer future(s); only check_expirations() may wake", OP_NAMES[op.k as usize], env.wakes.len()), false);
        }
        if !self.prim_alive {
            return;
        }
        // next_expiration() is exact
        let ne = self.prim_ref.unwrap().next_expiration();
        let want = self.model_next(env);
        if ne != want {
            env.fail("C15", "next-expiration", format!("after {}: next_expiration() = {:?} but the smallest registered deadline is {:?}", OP_NAMES[op.k as usize], ne, want), true);
            return;
        }
        let futs = &self.futs;
        let snap = self.prim_ref.unwrap().snapshot(&mut |addr| futs.find(addr).is_some());
        let resolve = |addr: usize| futs.find(addr).map(|id| (id, 0u8));
        let orders = oracle::c01_membership(env, &snap, &resolve, &[QueueKind { name: "waiters", kinds: &[0] }]);
        if env.has_fatal() {
            return;
        }
        // the heap holds exactly the registered, un-expired futures, with the model's deadlines
        if let Some(q) = snap.queues.first() {
            if q.nodes.len() >= 3 {
                env.probe("heap_with_3_or_more_nodes");
            }
            for (n, id) in q.nodes.iter().zip(orders[0].iter()) {
                if n.aux != self.deadline[*id] {
                    env.fail("C15", "deadline-value", format!("timer #{} is registered with expiry {} but deadline(now+d) saturating gives {}", id, n.aux, self.deadline[*id]), true);
                }
                if !self.registered[*id] || self.expired[*id] {
                    env.fail("C15", "stale-registration", format!("timer #{} is in the timer queue but should not be", id), false);
                }
            }
        }
        // expired futures hold a wake-up through their latest waker until polled
        for i in 0..env.live.len() {
            let id = env.live[i];
            let sl = env.slots[id];
            if sl.st == St::Pending && self.expired[id] && !sl.uw() {
                env.fail("C15", "expired-not-woken", format!("timer #{} expired but holds no wake-up through its latest waker", id), false);
            }
        }
        let nreg = env.live.iter().filter(|id| self.registered[**id] && !self.expired[**id]).count() as u64;
        let ndue = env.live.iter().filter(|id| self.registered[**id] && !self.expired[**id] && self.deadline[**id] <= self.now).count() as u64;
        let model = [nreg, ndue];
        let sh = oracle::state_hash(env, None, &orders, &model);
        env.push_state(sh, op.k);
    }

    fn new_fut(&mut self, env: &mut Env, id: usize, fut: A::Fut, deadline: u64) {
        self.used[id] = true;
        self.futs.put(id, fut);
        self.deadline[id] = deadline;
        env.slot_create(id, 0, 0);
        if env.live.iter().any(|o| *o != id && self.registered[*o] && !self.expired[*o] && self.deadline[*o] == deadline) {
            env.fault("duplicate_deadline");
        }
    }
}

impl<A: TimerApi> World for TimerWorld<A> {
    fn new(cfg: &Cfg, _env: &mut Env) -> Self {
        let clock = ClockRef::claim(cfg_get(cfg, "mock_clock", 0) != 0);
        let start = cfg_get(cfg, "start", 0) as u64;
        clock.set(start);
        let (root, prim_ref) = Owned::new(A::create(clock));
        let mut weights = [0u32; NW];
        for (i, w) in weights.iter_mut().enumerate() {
            *w = cfg_get(cfg, WK[i], 10) as u32;
        }
        let step = cfg_get(cfg, "step", 10) as u64;
        let nalpha = cfg_get(cfg, "alphabet", 4) as u64;
        let mut alphabet: Vec<u64> = (1..=nalpha).map(|i| start + i * step).collect();
        alphabet.push(start + step); // duplicate on purpose
        alphabet.push(start); // already due
        if cfg_get(cfg, "with_max", 0) != 0 {
            alphabet.push(u64::MAX);
        }
        TimerWorld {
            futs: Arena::new(),
            prim_ref: Some(prim_ref),
            root: Some(root),
            prim_alive: true,
            clock,
            now: start,
            deadline: [0; MAX_IDS],
            registered: [false; MAX_IDS],
            expired: [false; MAX_IDS],
            stale_since: 0,
            used: [false; MAX_IDS],
            k: cfg_get(cfg, "k", 3) as usize,
            realism: cfg_get(cfg, "realism", 50) as u64,
            weights,
            next_id: 0,
            burst_left: cfg_get(cfg, "burst", 0).max(0) as u64,
            burst_poll: None,
            alphabet,
        }
    }

    fn gen(&mut self, rng: &mut Rng, env: &Env, teardown: bool) -> Option<Op> {
        let live = &env.live;
        if teardown {
            if live.is_empty() {
                return if self.prim_alive { Some(Op::new(OP_DROP_PRIM, 0, 0, 0)) } else { None };
            }
            return Some(Op::new(OP_DROP, *rng.pick(live) as u32, 0, 0));
        }
        if (self.burst_left > 0 || self.burst_poll.is_some()) && self.next_id < MAX_IDS - 1 {
            if let Some(id) = self.burst_poll.take() {
                return Some(Op::new(OP_POLL, id as u32, 0, 0));
            }
            self.burst_left -= 1;
            self.next_id += 1;
            let id = self.next_id - 1;
            self.burst_poll = Some(id);
            let t = *rng.pick(&self.alphabet);
            return Some(Op::new(OP_NEW_DEADLINE, id as u32, 0, t));
        }
        let pollable: Vec<usize> = live.iter().copied().filter(|id| matches!(env.slots[*id].st, St::Fresh | St::Pending)).collect();
        let done: Vec<usize> = live.iter().copied().filter(|id| env.slots[*id].st == St::Done).collect();
        let mut w = self.weights;
        if pollable.len() >= self.k || self.next_id >= MAX_IDS - 1 {
            w[0] = 0;
            w[3] = 0;
        }
        if pollable.is_empty() {
            w[1] = 0;
        }
        if live.is_empty() {
            w[2] = 0;
        }
        if done.is_empty() {
            w[6] = 0;
        }
        if w.iter().all(|x| *x == 0) {
            return None;
        }
        Some(match rng.weighted(&w) as u16 {
            OP_NEW_DEADLINE => {
                self.next_id += 1;
                let t = *rng.pick(&self.alphabet);
                Op::new(OP_NEW_DEADLINE, (self.next_id - 1) as u32, 0, t)
            }
            OP_NEW_DELAY => {
                self.next_id += 1;
                // b selects the unit: 0 = c milliseconds, 1 = Duration::MAX, 2 = c seconds,
                // 3 = u64::MAX milliseconds + c milliseconds, 4 = c nanoseconds
                let (unit, d) = match rng.below(20) {
                    0 => (1u32, 0u64),
                    1 => (0, u64::MAX - 1),
                    2 => (0, 0),
                    3 => (2, 1u64 << rng.range(54, 62)), // more than u64::MAX milliseconds
                    4 => (3, rng.below(2000)),           // just above u64::MAX milliseconds
                    5 => (2, rng.below(50)),
                    6 => (4, rng.below(3_000_000)),      // sub-millisecond remainders
                    _ => {
                        let tgt = *rng.pick(&self.alphabet);
                        (0, tgt.saturating_sub(self.now).min(1_000_000))
                    }
                };
                Op::new(OP_NEW_DELAY, (self.next_id - 1) as u32, unit, d)
            }
            OP_POLL => {
                let woken: Vec<usize> = pollable.iter().copied().filter(|id| env.slots[*id].uw() || env.slots[*id].st == St::Fresh).collect();
                let id = if !woken.is_empty() && rng.pct(self.realism) { *rng.pick(&woken) } else { *rng.pick(&pollable) };
                let v = if rng.pct(25) { rng.below(2) as u32 } else { env.slots[id].last_variant as u32 };
                Op::new(OP_POLL, id as u32, v, 0)
            }
            OP_DROP => {
                let pend: Vec<usize> = live.iter().copied().filter(|id| env.slots[*id].st == St::Pending).collect();
                let id = if !pend.is_empty() && rng.pct(70) { *rng.pick(&pend) } else { *rng.pick(live) };
                Op::new(OP_DROP, id as u32, 0, 0)
            }
            OP_ADVANCE => {
                // land exactly on, one below or one above a deadline; or a small / huge step
                let regs: Vec<u64> = live.iter().filter(|id| self.registered[**id] && !self.expired[**id]).map(|id| self.deadline[*id]).filter(|d| *d > self.now).collect();
                let t = if !regs.is_empty() && rng.pct(70) {
                    let d = *rng.pick(&regs);
                    match rng.below(4) {
                        0 => d.saturating_sub(1),
                        1 => d.saturating_add(1),
                        _ => d,
                    }
                } else {
                    match rng.below(40) {
                        0 => u64::MAX,
                        1 | 2 => self.now.saturating_add(1_000_000),
                        _ => self.now.saturating_add(rng.range(1, 25) as u64),
                    }
                };
                Op::new(OP_ADVANCE, 0, 0, t.max(self.now))
            }
            OP_CHECK => Op::new(OP_CHECK, 0, 0, 0),
            _ => Op::new(OP_POLL_COMPLETED, *rng.pick(&done) as u32, 0, 0),
        })
    }

    fn exec(&mut self, op: Op, env: &mut Env) {
        let id = op.a as usize % MAX_IDS;
        match op.k {
            OP_NEW_DEADLINE => {
                if self.prim_alive && !self.used[id] {
                    let t = self.prim_ref.unwrap();
                    let dl = op.c;
                    if let Some(f) = env.call("deadline", || t.deadline(dl)) {
                        self.new_fut(env, id, f, dl);
                    }
                }
            }
            OP_NEW_DELAY => {
                if self.prim_alive && !self.used[id] {
                    let t = self.prim_ref.unwrap();
                    let dur = match op.b {
                        1 => Duration::MAX,
                        2 => Duration::from_secs(op.c),
                        3 => Duration::from_millis(u64::MAX).saturating_add(Duration::from_millis(op.c)),
                        4 => Duration::from_nanos(op.c),
                        _ => Duration::from_millis(op.c),
                    };
                    // "delay(d) means deadline(now+d), saturating", at the timer's millisecond precision
                    let ms = dur.as_millis().min(u64::MAX as u128) as u64;
                    if dur.as_millis() > u64::MAX as u128 {
                        env.fault("delay_longer_than_u64_ms");
                    }
                    if let Some(f) = env.call("delay", || t.delay(dur)) {
                        let dl = self.now.saturating_add(ms);
                        if dl == u64::MAX {
                            env.fault("delay_saturates");
                        }
                        self.new_fut(env, id, f, dl);
                    }
                }
            }
            OP_POLL => {
                if let Some(out) = poll_fut(env, &mut self.futs, id, (op.b & 1) as u8) {
                    let must_complete = if out.was_fresh { self.now >= self.deadline[id] } else { self.expired[id] };
                    match out.res {
                        None => {}
                        Some(Poll::Ready(())) => {
                            env.end_poll(id, true);
                            if !must_complete {
                                let why = if self.now < self.deadline[id] { "the clock is below its deadline" } else { "no check_expirations() observed its deadline yet" };
                                env.fail("C15", "early", format!("timer #{} (deadline {}) completed at clock {} although {}", id, self.deadline[id], self.now, why), true);
                            }
                            self.registered[id] = false;
                        }
                        Some(Poll::Pending) => {
                            env.end_poll(id, false);
                            if must_complete {
                                env.fail("C15", "missed", format!("timer #{} (deadline {}) stayed pending at clock {} although it is due{}", id, self.deadline[id], self.now, if out.was_fresh { "" } else { " and was expired by check_expirations()" }), true);
                            }
                            if out.was_fresh {
                                self.registered[id] = true;
                            }
                        }
                    }
                }
            }
            OP_DROP => {
                if self.futs.is_live(id) && self.registered[id] && !self.expired[id] {
                    env.probe("cancel_registered_timer");
                }
                if drop_fut(env, &mut self.futs, id) {
                    self.registered[id] = false;
                    self.expired[id] = false;
                }
            }
            OP_ADVANCE => {
                let t = op.c.max(self.now);
                let passed = env.live.iter().filter(|i| self.registered[**i] && !self.expired[**i] && self.deadline[**i] > self.now && self.deadline[**i] <= t).count();
                if passed >= 2 {
                    env.fault("clock_jump_past_many");
                }
                if t == u64::MAX && self.now != u64::MAX {
                    env.fault("clock_jump_saturating");
                }
                if t - self.now < 10_000_000 {
                    env.sim_time_ms += t - self.now;
                }
                self.now = t;
                self.clock.set(t);
            }
            OP_CHECK => {
                if self.prim_alive {
                    let t = self.prim_ref.unwrap();
                    let due: Vec<usize> = env.live.iter().copied().filter(|i| self.registered[*i] && !self.expired[*i] && self.deadline[*i] <= self.now).collect();
                    if !due.is_empty() && self.stale_since >= 3 {
                        env.fault("driver_stall");
                    }
                    self.stale_since = 0;
                    if env.call("check_expirations", || t.check_expirations()).is_some() {
                        env.collect_wakes();
                        // exactly the due set, each through its latest waker, in deadline order
                        let woken: Vec<(u16, u8)> = env.wakes.clone();
                        let mut last_dl = 0u64;
                        for (wid, var) in &woken {
                            let wid = *wid as usize;
                            if !due.contains(&wid) {
                                env.fail("C15", "woke-not-due", format!("check_expirations() at clock {} woke timer #{} (deadline {}) which is not due or not registered", self.now, wid, self.deadline[wid]), true);
                            } else if *var != env.slots[wid].last_variant {
                                env.fail("C15", "stale-waker", format!("timer #{} was woken through a waker that is not the one of its latest poll", wid), false);
                            }
                            if self.deadline[wid] < last_dl {
                                env.fail("C15", "wake-order", format!("check_expirations() woke deadline {} after deadline {}", self.deadline[wid], last_dl), false);
                            }
                            last_dl = last_dl.max(self.deadline[wid]);
                        }
                        for d in &due {
                            let n = woken.iter().filter(|(w, _)| *w as usize == *d).count();
                            if n == 0 {
                                env.fail("C15", "due-not-woken", format!("check_expirations() at clock {} did not wake timer #{} with deadline {}", self.now, d, self.deadline[*d]), false);
                            }
                            self.expired[*d] = true;
                        }
                        if due.len() >= 2 {
                            env.probe("expired_2_or_more_in_one_check");
                        }
                    }
                }
            }
            OP_POLL_COMPLETED => {
                poll_completed(env, &mut self.futs, id);
            }
            OP_DROP_PRIM => {
                if self.prim_alive && env.live.is_empty() {
                    self.prim_ref = None;
                    let root = self.root.take();
                    env.call("drop timer service", || drop(root));
                    self.prim_alive = false;
                }
            }
            _ => {}
        }
        if op.k != OP_CHECK {
            self.stale_since += 1;
        }
        self.check(env, op);
    }

    fn finish(&mut self, env: &mut Env) {
        for id in env.live.clone() {
            run_finish_op(self, Op::new(OP_DROP, id as u32, 0, 0), env);
        }
        if self.prim_alive {
            run_finish_op(self, Op::new(OP_DROP_PRIM, 0, 0, 0), env);
        }
    }
}

fn draw_cfg(rng: &mut Rng) -> Cfg {
    let mut c = Cfg::new();
    c.insert("flavour".into(), rng.below(2) as i64);
    c.insert("mock_clock".into(), rng.pct(30) as i64);
    c.insert("start".into(), *rng.pick(&[0i64, 0, 7, 1_000_000]));
    c.insert("step".into(), *rng.pick(&[1i64, 5, 10, 1000]));
    c.insert("alphabet".into(), if rng.pct(88) { rng.range(2, 5) } else { *rng.pick(&[8i64, 13]) });
    c.insert("with_max".into(), rng.pct(40) as i64);
    // live futures: mostly few (small joint states recur), sometimes many (batch loops, deep heaps / queues)
    let k = if rng.pct(88) { rng.range(1, 6) } else { *rng.pick(&[9i64, 16]) };
    c.insert("k".into(), k);
    c.insert("len".into(), rng.range(8, 96));
    c.insert("realism".into(), *rng.pick(&[10, 50, 90]));
    let base = [160u32, 300, 90, 60, 160, 120, 2];
    for (i, b) in base.iter().enumerate() {
        let f = *rng.pick(&[0u32, 1, 1, 1, 2, 3]);
        c.insert(WK[i].into(), (*b * f) as i64);
    }
    // rarely: more than 32 simultaneous waiters (typical size of a waker batch)
    let burst = if rng.pct(4) { *rng.pick(&[33i64, 34, 40]) } else { 0 };
    c.insert("burst".into(), burst);
    let len0 = cfg_get(&c, "len", 32);
    c.insert("len".into(), len0 + 2 * burst);
    c.insert("w0".into(), cfg_get(&c, "w0", 160).max(80));
    c.insert("w1".into(), cfg_get(&c, "w1", 300).max(150));
    c.insert("w4".into(), cfg_get(&c, "w4", 160).max(50));
    c.insert("w5".into(), cfg_get(&c, "w5", 120).max(40));
    c
}

fn dispatch_gen(cfg: &Cfg, rng: &mut Rng, env: &mut Env) -> Vec<Op> {
    match cfg_get(cfg, "flavour", 0) {
        0 => generic_gen_run::<TimerWorld<GenericTimerService<NoopLock>>>(cfg, rng, env),
        _ => generic_gen_run::<TimerWorld<GenericTimerService<PlLock>>>(cfg, rng, env),
    }
}

fn dispatch_replay(cfg: &Cfg, ops: &[Op], env: &mut Env) {
    match cfg_get(cfg, "flavour", 0) {
        0 => generic_replay::<TimerWorld<GenericTimerService<NoopLock>>>(cfg, ops, env),
        _ => generic_replay::<TimerWorld<GenericTimerService<PlLock>>>(cfg, ops, env),
    }
}

fn shrink_cfg() -> Vec<(&'static str, Vec<i64>)> {
    vec![("flavour", vec![0]), ("mock_clock", vec![0]), ("start", vec![0])]
}

fn shrink_op(op: Op) -> Vec<Op> {
    match op.k {
        OP_POLL if op.b != 0 => vec![Op { b: 0, ..op }],
        _ => vec![],
    }
}

pub static DEF: WorldDef = WorldDef {
    name: "timer",
    props: &["C01", "C15", "C17", "C18"],
    draw_cfg,
    gen_run: dispatch_gen,
    replay: dispatch_replay,
    op_name: |k| OP_NAMES.get(k as usize).copied().unwrap_or("?"),
    shrink_cfg,
    shrink_op,
};
