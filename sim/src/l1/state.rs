//! L1 world: state broadcast channel (borrowed on NoopLock / parking_lot, shared with up to
//! 3 + 3 handles). Oracles: C13 (ids strictly increase, receivers converge on the latest
//! state, woken by send/close), C11 (close + handle lifecycle), C01, C17, C18.

use super::common::{drop_fut, poll_completed, poll_fut, run_finish_op};
use super::oracle::{self, AllocAllow, QueueKind};
use super::{generic_gen_run, generic_replay, World, WorldDef};
use crate::core::*;
use crate::flavour::{NoopLock, PlLock};
use crate::rng::Rng;
use crate::val::{self, Val};
use futures_core::future::FusedFuture;
use futures_intrusive::channel::shared::{self, GenericStateReceiver, GenericStateSender, VerifStateObserver};
use futures_intrusive::channel::{ChannelSendError, CloseStatus, GenericStateBroadcastChannel, StateId, StateReceiveFuture};
use futures_intrusive::verif::{IsLive, Snapshot};
use lock_api::RawMutex;
use std::future::Future;
use std::task::Poll;

pub const OP_NEW: u16 = 0;
pub const OP_POLL: u16 = 1;
pub const OP_DROP: u16 = 2;
pub const OP_SEND: u16 = 3;
pub const OP_TRY_RECV: u16 = 4;
pub const OP_CLOSE: u16 = 5;
pub const OP_CLONE_TX: u16 = 6;
pub const OP_DROP_TX: u16 = 7;
pub const OP_CLONE_RX: u16 = 8;
pub const OP_DROP_RX: u16 = 9;
pub const OP_POLL_COMPLETED: u16 = 10;
pub const OP_DROP_PRIM: u16 = 11;
const OP_NAMES: [&str; 12] =
    ["NewReceive", "Poll", "Drop", "Send", "TryReceive", "Close", "CloneSender", "DropSender", "CloneReceiver", "DropReceiver", "PollCompleted", "DropPrim"];
const NW: usize = 11;
const WK: [&str; NW] = ["w0", "w1", "w2", "w3", "w4", "w5", "w6", "w7", "w8", "w9", "w10"];
const MAX_HANDLES: usize = 3;
const MAX_PUBS: usize = 48;

pub trait StateApi: 'static {
    type Root;
    type Tx;
    type Rx;
    type Obs;
    type Fut: Future<Output = Option<(StateId, Val)>> + FusedFuture;
    const SHARED: bool;
    fn create() -> (Self::Root, Self::Tx, Self::Rx, Self::Obs);
    fn clone_tx(t: &Self::Tx) -> Self::Tx;
    fn clone_rx(r: &Self::Rx) -> Self::Rx;
    fn send(t: &Self::Tx, v: Val) -> Result<(), ChannelSendError<Val>>;
    fn close(t: &Self::Tx) -> Option<CloseStatus>;
    fn receive(r: &Self::Rx, id: StateId) -> Self::Fut;
    fn try_receive(r: &Self::Rx, id: StateId) -> Option<(StateId, Val)>;
    fn snapshot(o: &Self::Obs, is_live: IsLive<'_>) -> Snapshot;
}

pub struct BorrowedState<M>(std::marker::PhantomData<M>);
impl<M: RawMutex + 'static> StateApi for BorrowedState<M> {
    type Root = Owned<GenericStateBroadcastChannel<M, Val>>;
    type Tx = &'static GenericStateBroadcastChannel<M, Val>;
    type Rx = &'static GenericStateBroadcastChannel<M, Val>;
    type Obs = &'static GenericStateBroadcastChannel<M, Val>;
    type Fut = StateReceiveFuture<'static, M, Val>;
    const SHARED: bool = false;
    fn create() -> (Self::Root, Self::Tx, Self::Rx, Self::Obs) {
        let (b, r) = Owned::new(GenericStateBroadcastChannel::<M, Val>::new());
        (b, r, r, r)
    }
    fn clone_tx(t: &Self::Tx) -> Self::Tx {
        *t
    }
    fn clone_rx(r: &Self::Rx) -> Self::Rx {
        *r
    }
    fn send(t: &Self::Tx, v: Val) -> Result<(), ChannelSendError<Val>> {
        t.send(v)
    }
    fn close(t: &Self::Tx) -> Option<CloseStatus> {
        Some(t.close())
    }
    fn receive(r: &Self::Rx, id: StateId) -> Self::Fut {
        r.receive(id)
    }
    fn try_receive(r: &Self::Rx, id: StateId) -> Option<(StateId, Val)> {
        r.try_receive(id)
    }
    fn snapshot(o: &Self::Obs, is_live: IsLive<'_>) -> Snapshot {
        o.verif_snapshot(is_live)
    }
}

pub struct SharedState<M>(std::marker::PhantomData<M>);
impl<M: RawMutex + 'static> StateApi for SharedState<M> {
    type Root = ();
    type Tx = GenericStateSender<M, Val>;
    type Rx = GenericStateReceiver<M, Val>;
    type Obs = VerifStateObserver<M, Val>;
    type Fut = shared::StateReceiveFuture<M, Val>;
    const SHARED: bool = true;
    fn create() -> (Self::Root, Self::Tx, Self::Rx, Self::Obs) {
        let (tx, rx) = shared::generic_state_broadcast_channel::<M, Val>();
        let obs = tx.verif_observer();
        ((), tx, rx, obs)
    }
    fn clone_tx(t: &Self::Tx) -> Self::Tx {
        t.clone()
    }
    fn clone_rx(r: &Self::Rx) -> Self::Rx {
        r.clone()
    }
    fn send(t: &Self::Tx, v: Val) -> Result<(), ChannelSendError<Val>> {
        t.send(v)
    }
    fn close(_t: &Self::Tx) -> Option<CloseStatus> {
        None
    }
    fn receive(r: &Self::Rx, id: StateId) -> Self::Fut {
        r.receive(id)
    }
    fn try_receive(r: &Self::Rx, id: StateId) -> Option<(StateId, Val)> {
        r.try_receive(id)
    }
    fn snapshot(o: &Self::Obs, is_live: IsLive<'_>) -> Snapshot {
        o.verif_snapshot(is_live)
    }
}

pub struct StateWorld<A: StateApi> {
    futs: Arena<A::Fut>,
    txs: Vec<Option<A::Tx>>,
    rxs: Vec<Option<A::Rx>>,
    obs: Option<A::Obs>,
    root: Option<A::Root>,
    prim_alive: bool,
    // model: publication j (1-based) carries tag pubs[j-1]; idx 0 = StateId::new()
    pubs: Vec<u32>,
    ids: Vec<Option<StateId>>,
    closed: bool,
    ever_closed_explicitly: bool,
    req: [usize; MAX_IDS],
    n_tx: usize,
    n_rx: usize,
    used: [bool; MAX_IDS],
    expected_lib_drops: Vec<u32>,
    observer_on: bool,
    /// StateIds taken from an unrelated channel that has seen j publications (index j); lets a
    /// request run *ahead* of this channel (a subscriber that kept its id across a re-created channel)
    donor: Vec<StateId>,
    foreign: bool,
    k: usize,
    realism: u64,
    weights: [u32; NW],
    next_id: usize,
    /// a burst of New / Poll pairs at the start of the run (many simultaneous waiters: batch loops)
    burst_left: u64,
    burst_poll: Option<usize>,
}

impl<A: StateApi> StateWorld<A> {
    fn owners(&self, env: &Env) -> usize {
        self.txs.iter().flatten().count()
            + self.rxs.iter().flatten().count()
            + self.obs.is_some() as usize
            + env.live.iter().filter(|id| matches!(env.slots[**id].st, St::Fresh | St::Pending)).count()
    }

    fn n(&self) -> usize {
        self.pubs.len()
    }

    /// Checks a (StateId, value) result against the publication log; `k` = requested index.
    fn judge_value(&mut self, env: &mut Env, who: &str, k: usize, id: StateId, tag: u32) -> bool {
        let n = self.n();
        if n == 0 || k >= n {
            env.fail("C13", "nothing-newer", format!("{} (requested id #{}) yielded value {} although the latest publication is #{}", who, k, tag, n), true);
            return false;
        }
        if tag != self.pubs[n - 1] {
            let stale = self.pubs.iter().position(|t| *t == tag).map(|p| format!("publication #{}", p + 1)).unwrap_or_else(|| "no publication".into());
            env.fail("C13", "not-latest-state", format!("{} yielded value {} ({}) but the latest published state is value {} (#{})", who, tag, stale, self.pubs[n - 1], n), true);
            return false;
        }
        // StateId is opaque: remember the first id seen per publication; ids must agree and increase
        match self.ids[n] {
            Some(seen) if seen != id => {
                env.fail("C13", "id-unstable", format!("{} got a different StateId for publication #{} than an earlier receive", who, n), true);
                return false;
            }
            _ => {}
        }
        for (j, other) in self.ids.iter().enumerate() {
            if let Some(o) = other {
                if (j < n && !(*o < id)) || (j > n && !(*o > id)) {
                    env.fail("C13", "id-order", format!("{}: StateId of publication #{} is not ordered consistently with the id of #{}", who, n, j), true);
                    return false;
                }
            }
        }
        if self.ids[n].is_none() {
            self.ids[n] = Some(id);
        }
        true
    }

    fn model_send_ok(&mut self, tag: u32) {
        if let Some(prev) = self.pubs.last() {
            // the previous state is overwritten (dropped) inside send()
            self.expected_lib_drops.push(*prev);
        }
        self.pubs.push(tag);
    }

    fn check(&mut self, env: &mut Env, op: Op, owners_before: usize) {
        env.collect_wakes();
        if env.has_fatal() {
            return;
        }
        let opname = OP_NAMES[op.k as usize];
        let dropped = val::drain_recent();
        let mut want = std::mem::take(&mut self.expected_lib_drops);
        want.sort_unstable();
        if dropped != want {
            env.fail("C13", "unexpected-drop", format!("{}: values dropped inside the library: {:?}, expected: {:?}", opname, dropped, want), true);
            return;
        }
        let owners_after = self.owners(env);
        let last_owner_gone = A::SHARED && owners_before > 0 && owners_after == 0;
        oracle::c18_alloc(env, AllocAllow { allocs: false, deallocs: last_owner_gone || op.k == OP_DROP_PRIM }, opname);
        for i in 0..env.live.len() {
            let id = env.live[i];
            let t = self.futs.get(id).is_terminated();
            oracle::c17_terminated(env, id, t);
        }
        // C13: a receiver waiting for something newer is woken by the next send or by close
        let n = self.n();
        for i in 0..env.live.len() {
            let id = env.live[i];
            let s = env.slots[id];
            if s.st == St::Pending && !s.uw() {
                if n > self.req[id] {
                    env.fail("C13", "send-did-not-wake", format!("after {}: receiver #{} waits for something newer than #{} and publication #{} exists, but it holds no wake-up through its latest waker", opname, id, self.req[id], n), false);
                } else if self.closed {
                    env.fail("C13", "close-did-not-wake", format!("after {}: receiver #{} is pending on a closed channel but holds no wake-up", opname, id), false);
                    env.fail("C11", "close-did-not-wake", format!("after {}: receiver #{} is pending on a closed channel but holds no wake-up", opname, id), false);
                }
            }
        }
        if !self.prim_alive {
            return;
        }
        let obs = match &self.obs {
            Some(o) => o,
            None => return,
        };
        let futs = &self.futs;
        let snap = A::snapshot(obs, &mut |addr| futs.find(addr).is_some());
        let resolve = |addr: usize| futs.find(addr).map(|id| (id, 0u8));
        let orders = oracle::c01_membership(env, &snap, &resolve, &[QueueKind { name: "waiters", kinds: &[0] }]);
        if env.has_fatal() {
            return;
        }
        let sc = snap.scalar("is_closed").unwrap_or(0) != 0;
        if sc != self.closed {
            env.fail(
                "C11",
                "closed-state",
                format!("after {}: the channel is {} but the model ({} sender / {} receiver handle(s) alive, explicit close: {}) says {}", opname, if sc { "closed" } else { "open" }, self.n_tx, self.n_rx, self.ever_closed_explicitly, if self.closed { "closed" } else { "open" }),
                true,
            );
            return;
        }
        let model = [self.closed as u64, (n.min(3)) as u64, self.n_tx as u64, self.n_rx as u64];
        let sh = oracle::state_hash(env, None, &orders, &model);
        // requested index relative to the latest publication is part of the joint state
        let mut h = crate::rng::Hasher64(sh);
        for i in 0..env.live.len() {
            let id = env.live[i];
            h.add((n as i64 - self.req[id] as i64).clamp(-1, 2) as u64);
        }
        env.push_state(h.get(), op.k);
    }

    fn consume(v: Val) -> u32 {
        let t = v.tag;
        drop(v);
        t
    }

    fn state_id_for(&self, k: usize) -> Option<StateId> {
        if k == 0 {
            Some(StateId::new())
        } else {
            self.ids.get(k).copied().flatten().or_else(|| if self.foreign { self.donor.get(k).copied() } else { None })
        }
    }
}

impl<A: StateApi> World for StateWorld<A> {
    fn new(cfg: &Cfg, _env: &mut Env) -> Self {
        val::reset();
        let (root, tx, rx, obs) = A::create();
        let observer_on = !A::SHARED || cfg_get(cfg, "observer", 1) != 0;
        let mut txs: Vec<Option<A::Tx>> = (0..MAX_HANDLES).map(|_| None).collect();
        let mut rxs: Vec<Option<A::Rx>> = (0..MAX_HANDLES).map(|_| None).collect();
        txs[0] = Some(tx);
        rxs[0] = Some(rx);
        let mut weights = [0u32; NW];
        for (i, w) in weights.iter_mut().enumerate() {
            *w = cfg_get(cfg, WK[i], 10) as u32;
        }
        let foreign = cfg_get(cfg, "foreign", 0) != 0;
        let mut donor = vec![StateId::new()];
        if foreign {
            let d = futures_intrusive::channel::LocalStateBroadcastChannel::<u8>::new();
            for _ in 0..MAX_PUBS + 2 {
                let _ = d.send(0);
                donor.push(d.try_receive(StateId::new()).map(|(id, _)| id).unwrap_or_else(StateId::new));
            }
        }
        StateWorld {
            donor,
            foreign,
            futs: Arena::new(),
            txs,
            rxs,
            obs: if observer_on { Some(obs) } else { None },
            root: Some(root),
            prim_alive: true,
            pubs: Vec::new(),
            ids: vec![None; MAX_PUBS + 2],
            closed: false,
            ever_closed_explicitly: false,
            req: [0; MAX_IDS],
            n_tx: 1,
            n_rx: 1,
            used: [false; MAX_IDS],
            expected_lib_drops: Vec::new(),
            observer_on,
            k: cfg_get(cfg, "k", 3) as usize,
            realism: cfg_get(cfg, "realism", 50) as u64,
            weights,
            next_id: 0,
            burst_left: cfg_get(cfg, "burst", 0).max(0) as u64,
            burst_poll: None,
        }
    }

    fn gen(&mut self, rng: &mut Rng, env: &Env, teardown: bool) -> Option<Op> {
        let live = &env.live;
        let txs: Vec<usize> = (0..MAX_HANDLES).filter(|i| self.txs[*i].is_some()).collect();
        let rxs: Vec<usize> = (0..MAX_HANDLES).filter(|i| self.rxs[*i].is_some()).collect();
        if teardown {
            let mut cands: Vec<Op> = live.iter().map(|id| Op::new(OP_DROP, *id as u32, 0, 0)).collect();
            if A::SHARED {
                for t in &txs {
                    cands.push(Op::new(OP_DROP_TX, *t as u32, 0, 0));
                }
                for r in &rxs {
                    cands.push(Op::new(OP_DROP_RX, *r as u32, 0, 0));
                }
            }
            if cands.is_empty() {
                return if self.prim_alive { Some(Op::new(OP_DROP_PRIM, 0, 0, 0)) } else { None };
            }
            return Some(*rng.pick(&cands));
        }
        if (self.burst_left > 0 || self.burst_poll.is_some()) && self.next_id < MAX_IDS - 1 && !rxs.is_empty() {
            if let Some(id) = self.burst_poll.take() {
                return Some(Op::new(OP_POLL, id as u32, 0, 0));
            }
            self.burst_left -= 1;
            self.next_id += 1;
            let id = self.next_id - 1;
            self.burst_poll = Some(id);
            return Some(Op::new(OP_NEW, id as u32, *rng.pick(&rxs) as u32, self.n() as u64));
        }
        let pollable: Vec<usize> = live.iter().copied().filter(|id| matches!(env.slots[*id].st, St::Fresh | St::Pending)).collect();
        let done: Vec<usize> = live.iter().copied().filter(|id| env.slots[*id].st == St::Done).collect();
        // requested ids are drawn from the ids seen so far plus StateId::new()
        let known: Vec<usize> = (0..=self.n()).filter(|k| *k == 0 || self.ids[*k].is_some()).collect();
        let mut w = self.weights;
        if pollable.len() >= self.k || self.next_id >= MAX_IDS - 1 || rxs.is_empty() {
            w[0] = 0;
        }
        if pollable.is_empty() {
            w[1] = 0;
        }
        if live.is_empty() {
            w[2] = 0;
        }
        if txs.is_empty() || self.n() >= MAX_PUBS {
            w[3] = 0;
        }
        if rxs.is_empty() {
            w[4] = 0;
        }
        if A::SHARED || txs.is_empty() {
            w[5] = 0;
        }
        if !A::SHARED || txs.is_empty() || txs.len() >= MAX_HANDLES {
            w[6] = 0;
        }
        if !A::SHARED || txs.is_empty() {
            w[7] = 0;
        }
        if !A::SHARED || rxs.is_empty() || rxs.len() >= MAX_HANDLES {
            w[8] = 0;
        }
        if !A::SHARED || rxs.is_empty() {
            w[9] = 0;
        }
        if done.is_empty() {
            w[10] = 0;
        }
        if w.iter().all(|x| *x == 0) {
            return None;
        }
        // bias requests towards the newest known id (the follower pattern)
        let (foreign, n_now) = (self.foreign, self.n());
        let pick_req = |rng: &mut Rng| -> usize {
            if foreign && rng.pct(15) {
                // an id this channel has not handed out (yet): ahead of, or unobserved in, this channel
                (n_now + rng.below(3) as usize).min(MAX_PUBS + 1)
            } else if rng.pct(60) {
                *known.last().unwrap()
            } else {
                *rng.pick(&known)
            }
        };
        Some(match rng.weighted(&w) as u16 {
            OP_NEW => {
                self.next_id += 1;
                let k = pick_req(rng);
                Op::new(OP_NEW, (self.next_id - 1) as u32, *rng.pick(&rxs) as u32, k as u64)
            }
            OP_POLL => {
                let woken: Vec<usize> = pollable.iter().copied().filter(|id| env.slots[*id].uw() || env.slots[*id].st == St::Fresh).collect();
                let id = if !woken.is_empty() && rng.pct(self.realism) { *rng.pick(&woken) } else { *rng.pick(&pollable) };
                let v = if rng.pct(25) { rng.below(2) as u32 } else { env.slots[id].last_variant as u32 };
                Op::new(OP_POLL, id as u32, v, 0)
            }
            OP_DROP => {
                let pend: Vec<usize> = live.iter().copied().filter(|id| env.slots[*id].st == St::Pending).collect();
                let id = if !pend.is_empty() && rng.pct(70) { *rng.pick(&pend) } else { *rng.pick(live) };
                Op::new(OP_DROP, id as u32, 0, 0)
            }
            OP_SEND => Op::new(OP_SEND, 0, *rng.pick(&txs) as u32, 0),
            OP_TRY_RECV => {
                let k = pick_req(rng);
                Op::new(OP_TRY_RECV, 0, *rng.pick(&rxs) as u32, k as u64)
            }
            OP_CLOSE => Op::new(OP_CLOSE, 0, *rng.pick(&txs) as u32, 0),
            OP_CLONE_TX => Op::new(OP_CLONE_TX, (0..MAX_HANDLES).find(|i| self.txs[*i].is_none()).unwrap() as u32, *rng.pick(&txs) as u32, 0),
            OP_DROP_TX => Op::new(OP_DROP_TX, *rng.pick(&txs) as u32, 0, 0),
            OP_CLONE_RX => Op::new(OP_CLONE_RX, (0..MAX_HANDLES).find(|i| self.rxs[*i].is_none()).unwrap() as u32, *rng.pick(&rxs) as u32, 0),
            OP_DROP_RX => Op::new(OP_DROP_RX, *rng.pick(&rxs) as u32, 0, 0),
            _ => Op::new(OP_POLL_COMPLETED, *rng.pick(&done) as u32, 0, 0),
        })
    }

    fn exec(&mut self, op: Op, env: &mut Env) {
        let id = op.a as usize % MAX_IDS;
        let hidx = op.b as usize % MAX_HANDLES;
        let owners_before = self.owners(env);
        match op.k {
            OP_NEW => {
                let k = op.c as usize;
                if self.prim_alive && !self.used[id] {
                    if let (Some(rx), Some(sid)) = (self.rxs[hidx].as_ref(), self.state_id_for(k)) {
                        if let Some(f) = env.call("receive", || A::receive(rx, sid)) {
                            self.used[id] = true;
                            self.futs.put(id, f);
                            self.req[id] = k;
                            env.slot_create(id, 0, 0);
                            if k < self.n() && k + 1 < self.n() {
                                env.fault("request_older_than_latest");
                            }
                            if k > self.n() {
                                env.fault("request_ahead_of_channel");
                            }
                        }
                    }
                }
            }
            OP_POLL => {
                if let Some(out) = poll_fut(env, &mut self.futs, id, (op.b & 1) as u8) {
                    let may_stay = !out.was_fresh && !out.had_uw;
                    let k = self.req[id];
                    match out.res {
                        None => {}
                        Some(Poll::Ready(r)) => {
                            env.end_poll(id, true);
                            match r {
                                Some((sid, v)) => {
                                    let t = Self::consume(v);
                                    self.judge_value(env, &format!("receive future #{}", id), k, sid, t);
                                    if self.closed {
                                        env.probe("latest_state_after_close");
                                    }
                                }
                                None => {
                                    if self.n() > k {
                                        env.fail("C13", "latest-not-delivered", format!("receive future #{} (requested id #{}) yielded None although publication #{} exists", id, k, self.n()), true);
                                    } else if !self.closed {
                                        env.fail("C11", "closed-while-open", format!("receive future #{} yielded None although the channel is open ({} sender / {} receiver handle(s) alive)", id, self.n_tx, self.n_rx), true);
                                    }
                                }
                            }
                        }
                        Some(Poll::Pending) => {
                            env.end_poll(id, false);
                            if !may_stay {
                                if self.n() > k {
                                    env.fail("C13", "receive-stays-pending", format!("receive future #{} (requested id #{}) stayed pending although publication #{} exists", id, k, self.n()), true);
                                } else if self.closed {
                                    env.fail("C11", "pending-after-close", format!("receive future #{} stayed pending on a closed channel", id), true);
                                }
                            }
                        }
                    }
                }
            }
            OP_DROP => {
                drop_fut(env, &mut self.futs, id);
            }
            OP_SEND => {
                if self.prim_alive && self.n() < MAX_PUBS {
                    if let Some(tx) = self.txs[hidx].as_ref() {
                        let tag = (self.n() + 1) as u32;
                        if env.any_pending(0, usize::MAX) {
                            env.fault("send_with_pending_receivers");
                        }
                        if let Some(r) = env.call("send", || A::send(tx, Val::new(tag))) {
                            match r {
                                Ok(()) => {
                                    env.log.add(1);
                                    if self.closed {
                                        env.fail("C11", "send-after-close-succeeded", format!("send({}) succeeded on a closed channel", tag), true);
                                    } else {
                                        self.model_send_ok(tag);
                                    }
                                }
                                Err(ChannelSendError(v)) => {
                                    env.log.add(2);
                                    let got = Self::consume(v);
                                    if got != tag {
                                        env.fail("C11", "wrong-value-handed-back", format!("send({}) failed and handed back value {}", tag, got), true);
                                    } else if !self.closed {
                                        env.fail("C11", "send-failed-while-open", format!("send({}) failed although the channel is open ({} sender / {} receiver handle(s) alive)", tag, self.n_tx, self.n_rx), true);
                                    } else {
                                        // the rejected publication never happened; reuse of the tag is fine
                                    }
                                }
                            }
                        }
                    }
                }
            }
            OP_TRY_RECV => {
                let k = op.c as usize;
                if self.prim_alive {
                    if let (Some(rx), Some(sid)) = (self.rxs[hidx].as_ref(), self.state_id_for(k)) {
                        if let Some(r) = env.call("try_receive", || A::try_receive(rx, sid)) {
                            match r {
                                Some((rid, v)) => {
                                    let t = Self::consume(v);
                                    env.log.add(t as u64 + 1);
                                    self.judge_value(env, "try_receive", k, rid, t);
                                }
                                None => {
                                    env.log.add(0);
                                    if self.n() > k {
                                        env.fail("C13", "latest-not-delivered", format!("try_receive(id #{}) yielded None although publication #{} exists", k, self.n()), true);
                                    }
                                }
                            }
                        }
                    }
                }
            }
            OP_CLOSE => {
                if self.prim_alive {
                    if let Some(tx) = self.txs[hidx].as_ref() {
                        if let Some(Some(status)) = env.call("close", || A::close(tx)) {
                            env.log.add(status.is_newly_closed() as u64);
                            if env.any_pending(0, usize::MAX) {
                                env.fault("close_with_pending_recv");
                            }
                            if status.is_newly_closed() == self.closed {
                                env.fail("C11", "close-status", format!("close() returned {:?} on a channel that was {}", status, if self.closed { "already closed" } else { "open" }), true);
                            }
                            self.closed = true;
                            self.ever_closed_explicitly = true;
                        }
                    }
                }
            }
            OP_CLONE_TX => {
                let dst = op.a as usize % MAX_HANDLES;
                if A::SHARED && self.txs[dst].is_none() {
                    let c = match self.txs[hidx].as_ref() {
                        Some(t) => env.call("clone sender", || A::clone_tx(t)),
                        None => None,
                    };
                    if c.is_some() {
                        self.txs[dst] = c;
                        self.n_tx += 1;
                    }
                }
            }
            OP_CLONE_RX => {
                let dst = op.a as usize % MAX_HANDLES;
                if A::SHARED && self.rxs[dst].is_none() {
                    let c = match self.rxs[hidx].as_ref() {
                        Some(r) => env.call("clone receiver", || A::clone_rx(r)),
                        None => None,
                    };
                    if c.is_some() {
                        self.rxs[dst] = c;
                        self.n_rx += 1;
                    }
                }
            }
            OP_DROP_TX => {
                let idx = op.a as usize % MAX_HANDLES;
                if A::SHARED {
                    if let Some(t) = self.txs[idx].take() {
                        if env.any_pending(0, usize::MAX) {
                            env.fault("handle_drop_with_pending_future");
                        }
                        self.n_tx -= 1;
                        if self.n_tx == 0 {
                            self.closed = true;
                            env.fault("last_sender_dropped");
                        }
                        env.call("drop sender", || drop(t));
                    }
                }
            }
            OP_DROP_RX => {
                let idx = op.a as usize % MAX_HANDLES;
                if A::SHARED {
                    if let Some(r) = self.rxs[idx].take() {
                        if env.any_pending(0, usize::MAX) {
                            env.fault("handle_drop_with_pending_future");
                        }
                        self.n_rx -= 1;
                        if self.n_rx == 0 {
                            self.closed = true;
                            env.fault("last_receiver_dropped");
                        }
                        env.call("drop receiver", || drop(r));
                    }
                }
            }
            OP_POLL_COMPLETED => {
                poll_completed(env, &mut self.futs, id);
            }
            OP_DROP_PRIM => {
                if self.prim_alive && env.live.is_empty() && (!A::SHARED || (self.n_tx == 0 && self.n_rx == 0)) {
                    if let Some(t) = self.pubs.last() {
                        self.expected_lib_drops.push(*t);
                    }
                    if !A::SHARED {
                        self.txs[0] = None;
                        self.rxs[0] = None;
                    }
                    // borrowed flavours: `obs` is a plain reference into the root; it must not be
                    // alive (not even captured) while the root is freed
                    let obs = if A::SHARED { self.obs.take() } else { None };
                    self.obs = None;
                    let root = self.root.take();
                    env.call("drop channel", || {
                        drop(obs);
                        drop(root);
                    });
                    self.prim_alive = false;
                }
            }
            _ => {}
        }
        if A::SHARED && !self.observer_on && self.prim_alive && owners_before > 0 && self.owners(env) == 0 {
            if let Some(t) = self.pubs.last() {
                self.expected_lib_drops.push(*t);
            }
            self.prim_alive = false;
        }
        self.check(env, op, owners_before);
    }

    fn finish(&mut self, env: &mut Env) {
        for id in env.live.clone() {
            run_finish_op(self, Op::new(OP_DROP, id as u32, 0, 0), env);
        }
        if A::SHARED {
            for h in 0..MAX_HANDLES {
                if self.txs[h].is_some() {
                    run_finish_op(self, Op::new(OP_DROP_TX, h as u32, 0, 0), env);
                }
            }
            for h in 0..MAX_HANDLES {
                if self.rxs[h].is_some() {
                    run_finish_op(self, Op::new(OP_DROP_RX, h as u32, 0, 0), env);
                }
            }
        }
        if self.prim_alive {
            run_finish_op(self, Op::new(OP_DROP_PRIM, 0, 0, 0), env);
        }
        if env.has_fatal() {
            return;
        }
        for tag in self.pubs.clone() {
            let (lib, own, clones) = val::counts(tag);
            if lib + own != 1 + clones {
                env.fail("C13", "drop-count", format!("state {}: {} instance(s) created but {} dropped", tag, 1 + clones, lib + own), false);
            }
        }
    }
}

fn draw_cfg(rng: &mut Rng) -> Cfg {
    let mut c = Cfg::new();
    c.insert("flavour".into(), rng.below(4) as i64);
    // live futures: mostly few (small joint states recur), sometimes many (batch loops, deep heaps / queues)
    let k = if rng.pct(88) { rng.range(1, 5) } else { *rng.pick(&[7i64, 10]) };
    c.insert("k".into(), k);
    c.insert("len".into(), rng.range(8, 80));
    c.insert("realism".into(), *rng.pick(&[10, 50, 90]));
    c.insert("observer".into(), rng.pct(80) as i64);
    let base = [200u32, 300, 80, 130, 80, 20, 30, 40, 30, 40, 2];
    for (i, b) in base.iter().enumerate() {
        let f = *rng.pick(&[0u32, 1, 1, 1, 2, 3]);
        c.insert(WK[i].into(), (*b * f) as i64);
    }
    // rarely: more than 32 simultaneous waiters (typical size of a waker batch)
    let burst = if rng.pct(4) { *rng.pick(&[33i64, 34, 40]) } else { 0 };
    c.insert("burst".into(), burst);
    let len0 = cfg_get(&c, "len", 32);
    c.insert("len".into(), len0 + 2 * burst);
    c.insert("foreign".into(), rng.pct(35) as i64);
    c.insert("w0".into(), cfg_get(&c, "w0", 200).max(100));
    c.insert("w1".into(), cfg_get(&c, "w1", 300).max(150));
    c.insert("w3".into(), cfg_get(&c, "w3", 130).max(60));
    c
}

macro_rules! dispatch {
    ($f:ident, $cfg:expr, $($arg:expr),*) => {
        match cfg_get($cfg, "flavour", 0) {
            0 => $f::<StateWorld<BorrowedState<NoopLock>>>($cfg, $($arg),*),
            1 => $f::<StateWorld<BorrowedState<PlLock>>>($cfg, $($arg),*),
            2 => $f::<StateWorld<SharedState<PlLock>>>($cfg, $($arg),*),
            _ => $f::<StateWorld<SharedState<NoopLock>>>($cfg, $($arg),*),
        }
    };
}

fn dispatch_gen(cfg: &Cfg, rng: &mut Rng, env: &mut Env) -> Vec<Op> {
    dispatch!(generic_gen_run, cfg, rng, env)
}

fn dispatch_replay(cfg: &Cfg, ops: &[Op], env: &mut Env) {
    dispatch!(generic_replay, cfg, ops, env)
}

fn shrink_cfg() -> Vec<(&'static str, Vec<i64>)> {
    vec![("observer", vec![1]), ("foreign", vec![0])]
}

fn shrink_op(op: Op) -> Vec<Op> {
    match op.k {
        OP_POLL if op.b != 0 => vec![Op { b: 0, ..op }],
        _ => vec![],
    }
}

pub static DEF: WorldDef = WorldDef {
    name: "state_broadcast",
    props: &["C01", "C11", "C13", "C17", "C18"],
    draw_cfg,
    gen_run: dispatch_gen,
    replay: dispatch_replay,
    op_name: |k| OP_NAMES.get(k as usize).copied().unwrap_or("?"),
    shrink_cfg,
    shrink_op,
};
