//! L1 — history simulator: the harness *is* the executor, at the granularity of single API
//! calls. A run = swarm configuration + a sequence of total operations; after every
//! operation (a quiescent point) the world compares with its reference model and evaluates
//! the property invariants.

use crate::core::*;
use crate::rng::{Hasher64, Rng};
use serde::{Deserialize, Serialize};
use std::collections::BTreeMap;

pub mod common;
pub mod event;
pub mod mpmc;
pub mod mutex;
pub mod oneshot;
pub mod oracle;
pub mod semaphore;
pub mod state;
pub mod timer;

pub trait World: Sized {
    fn new(cfg: &Cfg, env: &mut Env) -> Self;
    /// Draws the next operation from the current state. `teardown`: only destructive ops;
    /// returns None when nothing is left to tear down.
    fn gen(&mut self, rng: &mut Rng, env: &Env, teardown: bool) -> Option<Op>;
    /// Executes one operation against the real primitive and the model, then runs all oracles.
    fn exec(&mut self, op: Op, env: &mut Env);
    /// Deterministic implicit teardown (through `exec`) of whatever is still alive.
    fn finish(&mut self, env: &mut Env);
}

pub struct WorldDef {
    pub name: &'static str,
    pub props: &'static [&'static str],
    pub draw_cfg: fn(&mut Rng) -> Cfg,
    pub gen_run: fn(&Cfg, &mut Rng, &mut Env) -> Vec<Op>,
    pub replay: fn(&Cfg, &[Op], &mut Env),
    pub op_name: fn(u16) -> &'static str,
    /// (key, candidate simpler values in order of preference)
    pub shrink_cfg: fn() -> Vec<(&'static str, Vec<i64>)>,
    /// simpler variants of one op (argument shrinking)
    pub shrink_op: fn(Op) -> Vec<Op>,
}

pub fn worlds() -> Vec<&'static WorldDef> {
    vec![&semaphore::DEF, &mutex::DEF, &event::DEF, &timer::DEF, &mpmc::DEF, &oneshot::DEF, &state::DEF]
}

pub fn world_by_name(name: &str) -> Option<&'static WorldDef> {
    worlds().into_iter().find(|w| w.name == name)
}

fn test_poison_op() -> Option<(u16, u32)> {
    static POISON: std::sync::OnceLock<Option<(u16, u32)>> = std::sync::OnceLock::new();
    *POISON.get_or_init(|| {
        let v = std::env::var("SIMCTL_TEST_POISON_OP").ok()?;
        let (a, b) = v.split_once(':')?;
        Some((a.parse().ok()?, b.parse().ok()?))
    })
}

fn step<W: World>(w: &mut W, i: usize, op: Op, env: &mut Env) {
    env.log_op(op);
    if let Some((k, a)) = test_poison_op() {
        // self-test of the crash isolation machinery (SIMCTL_TEST_POISON_OP=<kind>:<a>)
        if op.k == k && op.a == a {
            std::process::abort();
        }
    }
    env.op_index = i;
    env.wakes.clear();
    env.alloc = Default::default();
    env.log.add(op.k as u64 ^ ((op.a as u64) << 16) ^ ((op.b as u64) << 40));
    env.log.add(op.c);
    env.kind_fp.add(op.k as u64);
    env.stats.ops += 1;
    w.exec(op, env);
    check_waker_balance(env, false);
}

/// C01: the library must drop every `Waker` it cloned exactly once.
fn check_waker_balance(env: &mut Env, end_of_run: bool) {
    let (lo, hi) = waker_balance_range();
    if lo < 0 {
        env.fail("C01", "waker-double-drop", "a Waker was dropped more often than it was cloned (a dropped future's waker was used again)".into(), true);
    } else if end_of_run && hi > 0 && !env.has_fatal() {
        env.fail("C01", "waker-leak", format!("{} Waker clone(s) were never dropped although every future and the primitive are gone", hi), false);
    }
}

pub fn generic_gen_run<W: World>(cfg: &Cfg, rng: &mut Rng, env: &mut Env) -> Vec<Op> {
    let len = cfg_get(cfg, "len", 32) as usize;
    env.waker_enc = cfg_get(cfg, "waker_enc", 0) as u8;
    let mut w = W::new(cfg, env);
    let mut ops = Vec::with_capacity(len + 16);
    for _ in 0..len {
        let op = match w.gen(rng, env, false) {
            Some(op) => op,
            None => break,
        };
        ops.push(op);
        step(&mut w, ops.len() - 1, op, env);
        if env.has_fatal() {
            std::mem::forget(w);
            return ops;
        }
    }
    let mut guard = 0;
    while let Some(op) = w.gen(rng, env, true) {
        ops.push(op);
        step(&mut w, ops.len() - 1, op, env);
        if env.has_fatal() {
            std::mem::forget(w);
            return ops;
        }
        guard += 1;
        if guard > 4 * MAX_IDS {
            env.fail("HARNESS", "teardown-does-not-terminate", "generator keeps producing teardown ops".into(), true);
            std::mem::forget(w);
            return ops;
        }
    }
    env.op_index = ops.len();
    w.finish(env);
    if env.has_fatal() {
        std::mem::forget(w);
    } else {
        drop(w);
        check_waker_balance(env, true);
    }
    ops
}

pub fn generic_replay<W: World>(cfg: &Cfg, ops: &[Op], env: &mut Env) {
    env.waker_enc = cfg_get(cfg, "waker_enc", 0) as u8;
    let mut w = W::new(cfg, env);
    for (i, op) in ops.iter().enumerate() {
        step(&mut w, i, *op, env);
        if env.has_fatal() {
            std::mem::forget(w);
            return;
        }
    }
    env.op_index = ops.len();
    w.finish(env);
    if env.has_fatal() {
        std::mem::forget(w);
    } else {
        drop(w);
        check_waker_balance(env, true);
    }
}

// ---------------------------------------------------------------- replay files

#[derive(Clone, Debug, Serialize, Deserialize)]
pub struct Replay {
    pub property: String,
    pub oracle: String,
    pub layer: String,
    pub world: String,
    pub seed: u64,
    pub run_index: u64,
    pub config: Cfg,
    pub ops: Vec<Op>,
    /// human-readable rendering of `ops` (informational; `ops` is what is executed)
    pub ops_readable: Vec<String>,
    pub message: String,
    pub event_log_hash: String,
    pub minimised_from_ops: usize,
    #[serde(default)]
    pub runner: String,
    /// L2: the choice tape (every executor / fault / script decision of the run)
    #[serde(default)]
    pub tape: Vec<u32>,
}

pub fn render_ops(def: &WorldDef, ops: &[Op]) -> Vec<String> {
    ops.iter().map(|o| format!("{}(a={},b={},c={})", (def.op_name)(o.k), o.a, o.b, o.c)).collect()
}

/// Executes a concrete trace; returns (fails, event log hash).
pub fn execute(def: &WorldDef, cfg: &Cfg, ops: &[Op], env: &mut Env) -> (Vec<Fail>, u64) {
    heartbeat();
    env.reset();
    (def.replay)(cfg, ops, env);
    (env.fails.clone(), env.log.get())
}

fn same_class(fails: &[Fail], prop: &str, oracle: &str) -> bool {
    fails.iter().any(|f| f.prop == prop && f.oracle == oracle)
}

/// ddmin over the op list, then configuration and argument shrinking. The same violation
/// class (property + oracle tag) must persist.
pub fn minimise(def: &WorldDef, cfg: &Cfg, ops: &[Op], prop: &str, oracle: &str, env: &mut Env, budget: usize) -> (Cfg, Vec<Op>) {
    let mut cfg = cfg.clone();
    let mut ops: Vec<Op> = ops.to_vec();
    let mut used = 0usize;
    let test = |cfg: &Cfg, ops: &[Op], env: &mut Env, used: &mut usize| -> bool {
        *used += 1;
        let (fails, _) = execute(def, cfg, ops, env);
        same_class(&fails, prop, oracle)
    };
    // cut the tail after the failing op (implicit teardown ops are made explicit first)
    {
        let (fails, _) = execute(def, &cfg, &ops, env);
        if let Some(f) = fails.iter().find(|f| f.prop == prop && f.oracle == oracle) {
            if f.at_op >= ops.len() {
                let extra = env.finish_ops.clone();
                let mut cand = ops.clone();
                cand.extend(extra.into_iter().take(f.at_op + 1 - ops.len()));
                if test(&cfg, &cand, env, &mut used) {
                    ops = cand;
                }
            }
            let cut = (f.at_op + 1).min(ops.len());
            let cand = ops[..cut].to_vec();
            if test(&cfg, &cand, env, &mut used) {
                ops = cand;
            }
        }
    }
    // ddmin
    let mut n = 2usize;
    while ops.len() >= 2 && used < budget {
        let chunk = (ops.len() + n - 1) / n;
        let mut reduced = false;
        let mut start = 0;
        while start < ops.len() && used < budget {
            let end = (start + chunk).min(ops.len());
            let mut cand = Vec::with_capacity(ops.len());
            cand.extend_from_slice(&ops[..start]);
            cand.extend_from_slice(&ops[end..]);
            if !cand.is_empty() && test(&cfg, &cand, env, &mut used) {
                ops = cand;
                n = (n - 1).max(2);
                reduced = true;
                // keep `start` (the next chunk slid into place)
            } else {
                start = end;
            }
        }
        if !reduced {
            if chunk <= 1 {
                break;
            }
            n = (n * 2).min(ops.len());
        }
    }
    // configuration shrinking
    for (key, cands) in (def.shrink_cfg)() {
        for v in cands {
            if used >= budget {
                break;
            }
            if cfg.get(key).copied() == Some(v) {
                break;
            }
            let mut c2 = cfg.clone();
            c2.insert(key.to_string(), v);
            if test(&c2, &ops, env, &mut used) {
                cfg = c2;
                break;
            }
        }
    }
    // argument shrinking
    let mut i = 0;
    while i < ops.len() && used < budget {
        for cand_op in (def.shrink_op)(ops[i]) {
            let mut cand = ops.clone();
            cand[i] = cand_op;
            if test(&cfg, &cand, env, &mut used) {
                ops = cand;
                break;
            }
        }
        i += 1;
    }
    // one more single-op removal pass (argument shrinking may have enabled more)
    let mut i = 0;
    while i < ops.len() && ops.len() > 1 && used < budget {
        let mut cand = ops.clone();
        cand.remove(i);
        if test(&cfg, &cand, env, &mut used) {
            ops = cand;
        } else {
            i += 1;
        }
    }
    // make the part of the implicit teardown that the violation needs explicit
    {
        let (fails, _) = execute(def, &cfg, &ops, env);
        if let Some(f) = fails.iter().find(|f| f.prop == prop && f.oracle == oracle) {
            if f.at_op >= ops.len() {
                let extra = env.finish_ops.clone();
                let mut cand = ops.clone();
                cand.extend(extra.into_iter().take(f.at_op + 1 - ops.len()));
                if test(&cfg, &cand, env, &mut used) {
                    ops = cand;
                }
            }
        }
    }
    (cfg, ops)
}

// ---------------------------------------------------------------- batches

#[derive(Clone, Debug, Serialize, Deserialize)]
pub struct Found {
    pub run_index: u64,
    pub cfg: Cfg,
    pub ops: Vec<Op>,
    pub fails: Vec<Fail>,
}

#[derive(Default)]
pub struct BatchOut {
    pub world: String,
    pub runs: u64,
    pub stats: Stats,
    pub nontrivial_fps: std::collections::HashSet<u64>,
    pub states: std::collections::HashSet<u64>,
    pub transitions: std::collections::HashSet<u64>,
    pub found: Vec<Found>,
    pub notes: BTreeMap<String, u64>,
    pub samples: Vec<serde_json::Value>,
    pub log_hash_xor: u64,
    pub sim_time_ms: u64,
}

pub struct BatchSpec<'a> {
    pub def: &'static WorldDef,
    pub seed: u64,
    pub first_run: u64,
    pub runs: u64,
    pub gate_prop: &'a str,
    pub threads: usize,
    pub cfg_override: Cfg,
    pub collect_states: bool,
    pub stop_on_first: bool,
    pub max_found: usize,
    /// directory in which every worker thread records the run index it is executing
    pub idx_dir: Option<String>,
    /// write-ahead operation log (crash isolation mode, single run)
    pub oplog: Option<String>,
}

const STATE_CAP: usize = 1_500_000;

pub fn draw_run_cfg(def: &WorldDef, seed: u64, run: u64, over: &Cfg) -> (Cfg, Rng) {
    let mut rng = Rng::for_run(seed, def.name, run);
    let mut cfg = (def.draw_cfg)(&mut rng);
    // how a future's wakers A and B differ: in the data pointer, or only in the vtable
    cfg.insert("waker_enc".into(), rng.pct(35) as i64);
    for (k, v) in over {
        cfg.insert(k.clone(), *v);
    }
    (cfg, rng)
}

pub fn run_batch(spec: &BatchSpec) -> BatchOut {
    use std::sync::atomic::{AtomicBool, AtomicU64, Ordering};
    use std::sync::Mutex;
    let next = AtomicU64::new(0);
    let stop = AtomicBool::new(false);
    let merged: Mutex<BatchOut> = Mutex::new(BatchOut { world: spec.def.name.to_string(), ..Default::default() });
    const CHUNK: u64 = 256;
    std::thread::scope(|sc| {
        for t in 0..spec.threads.max(1) {
            let (next, stop, merged) = (&next, &stop, &merged);
            sc.spawn(move || {
                let idx_file = spec.idx_dir.as_ref().and_then(|d| std::fs::File::create(format!("{}/t{}", d, t)).ok());
                let mut env = Env::new();
                env.collect_states = spec.collect_states;
                env.oplog = spec.oplog.as_ref().and_then(|p| std::fs::File::create(p).ok());
                let mut out = BatchOut::default();
                loop {
                    if stop.load(Ordering::Relaxed) {
                        break;
                    }
                    let base = next.fetch_add(CHUNK, Ordering::Relaxed);
                    if base >= spec.runs {
                        break;
                    }
                    let end = (base + CHUNK).min(spec.runs);
                    for r in base..end {
                        let run = spec.first_run + r;
                        if crate::core::skip_run(run) {
                            continue;
                        }
                        heartbeat();
                        if let Some(f) = &idx_file {
                            use std::os::unix::fs::FileExt;
                            let _ = f.write_at(&run.to_le_bytes(), 0);
                        }
                        let (cfg, mut rng) = draw_run_cfg(spec.def, spec.seed, run, &spec.cfg_override);
                        env.reset();

                        let ops = (spec.def.gen_run)(&cfg, &mut rng, &mut env);
                        out.runs += 1;
                        out.stats.merge(&env.stats);
                        out.log_hash_xor ^= env.log.get().wrapping_mul(run | 1);
                        out.sim_time_ms += env.sim_time_ms;
                        if env.pendings_this_run > 0 && env.faults_this_run > 0 {
                            out.nontrivial_fps.insert(env.kind_fp.get());
                        }
                        if spec.collect_states {
                            if out.states.len() < STATE_CAP {
                                out.states.extend(env.state_hashes.iter().copied());
                            }
                            if out.transitions.len() < STATE_CAP {
                                out.transitions.extend(env.trans_hashes.iter().copied());
                            }
                        }
                        if out.samples.len() < 1 && r % 97 == 3 {
                            out.samples.push(serde_json::json!({
                                "world": spec.def.name, "run_index": run, "config": cfg,
                                "ops": render_ops(spec.def, &ops), "event_log_hash": format!("{:016x}", env.log.get()),
                            }));
                        }
                        if !env.fails.is_empty() {
                            let gated = env.fails.iter().any(|f| f.prop == spec.gate_prop || f.prop == "HARNESS");
                            if gated {
                                if out.found.len() < spec.max_found {
                                    crate::core::note_found(run);
                                    out.found.push(Found { run_index: run, cfg: cfg.clone(), ops: ops.clone(), fails: env.fails.clone() });
                                }
                                if spec.stop_on_first {
                                    stop.store(true, Ordering::Relaxed);
                                }
                            }
                            for f in &env.fails {
                                if f.prop != spec.gate_prop {
                                    *out.notes.entry(format!("{}:{}", f.prop, f.oracle)).or_insert(0) += 1;
                                }
                            }
                        }
                    }
                }
                heartbeat_done();
                let mut m = merged.lock().unwrap();
                m.runs += out.runs;
                m.stats.merge(&out.stats);
                m.nontrivial_fps.extend(out.nontrivial_fps);
                m.states.extend(out.states);
                m.transitions.extend(out.transitions);
                m.found.extend(out.found);
                for (k, v) in out.notes {
                    *m.notes.entry(k).or_insert(0) += v;
                }
                m.samples.extend(out.samples);
                m.log_hash_xor ^= out.log_hash_xor;
                m.sim_time_ms += out.sim_time_ms;
            });
        }
    });
    let mut m = merged.into_inner().unwrap();
    m.found.sort_by_key(|f| f.run_index);
    m.samples.truncate(3);
    m
}

pub fn fingerprint_ops(ops: &[Op]) -> u64 {
    let mut h = Hasher64::default();
    for o in ops {
        h.add(o.k as u64);
    }
    h.get()
}
