//! L1 world: MPMC channel (borrowed and shared; NoopLock / parking_lot; ArrayBuf, FixedHeapBuf,
//! GrowingHeapBuf; capacities 0..4; streams; shared handle lifecycle).
//! Oracles: C08 exactly-once, C09 bounded FIFO / rendezvous (step-by-step refinement of a
//! reference FIFO), C10 no lost wake-up, C11 close + handle lifecycle, C01, C17, C18.

use super::common::{poll_completed, poll_fut, run_finish_op};
use super::oracle::{self, AllocAllow, QueueKind};
use super::{generic_gen_run, generic_replay, World, WorldDef};
use crate::core::*;
use crate::flavour::{NoopLock, PlLock};
use crate::rng::Rng;
use crate::val::{self, Fat, Payload, Val, Zst};
use futures_core::future::FusedFuture;
use futures_core::stream::{FusedStream, Stream};
use futures_intrusive::buffer::{ArrayBuf, FixedHeapBuf, GrowingHeapBuf, RingBuf};
use futures_intrusive::channel::shared::{self, GenericReceiver, GenericSender, SharedStream, VerifChannelObserver};
use futures_intrusive::channel::{
    ChannelReceiveFuture, ChannelSendError, ChannelSendFuture, ChannelStream, CloseStatus, GenericChannel, TryReceiveError, TrySendError,
};
use futures_intrusive::verif::{IsLive, Snapshot};
use lock_api::RawMutex;
use std::collections::VecDeque;
use std::future::Future;
use std::pin::Pin;
use std::task::{Context, Poll};

pub const OP_NEW_SEND: u16 = 0;
pub const OP_POLL: u16 = 1;
pub const OP_DROP: u16 = 2;
pub const OP_CANCEL: u16 = 3;
pub const OP_TRY_SEND: u16 = 4;
pub const OP_NEW_RECV: u16 = 5;
pub const OP_TRY_RECV: u16 = 6;
pub const OP_CLOSE: u16 = 7;
pub const OP_CLONE_TX: u16 = 8;
pub const OP_DROP_TX: u16 = 9;
pub const OP_CLONE_RX: u16 = 10;
pub const OP_DROP_RX: u16 = 11;
pub const OP_NEW_STREAM: u16 = 12;
pub const OP_POLL_COMPLETED: u16 = 13;
pub const OP_DROP_PRIM: u16 = 14;
const OP_NAMES: [&str; 15] = [
    "NewSend", "Poll", "Drop", "CancelSend", "TrySend", "NewRecv", "TryReceive", "Close", "CloneSender", "DropSender", "CloneReceiver",
    "DropReceiver", "NewStream", "PollCompleted", "DropPrim",
];
const NW: usize = 14;
const WK: [&str; NW] = ["w0", "w1", "w2", "w3", "w4", "w5", "w6", "w7", "w8", "w9", "w10", "w11", "w12", "w13"];
const MAX_HANDLES: usize = 3;

const K_SEND: u8 = 0;
const K_RECV: u8 = 1;
const K_STREAM: u8 = 2;

pub trait MpmcApi: 'static {
    type P: Payload;
    type Root;
    type Tx;
    type Rx;
    type Obs;
    type SendFut: Future<Output = Result<(), ChannelSendError<Self::P>>> + FusedFuture;
    type RecvFut: Future<Output = Option<Self::P>> + FusedFuture;
    type Strm: Stream<Item = Self::P> + FusedStream;
    const SHARED: bool;
    const GROWING: bool;
    /// None: this buffer type cannot provide the requested capacity
    fn create(cap: usize) -> (Self::Root, Self::Tx, Self::Rx, Self::Obs);
    fn clone_tx(t: &Self::Tx) -> Self::Tx;
    fn clone_rx(r: &Self::Rx) -> Self::Rx;
    fn send(t: &Self::Tx, v: Self::P) -> Self::SendFut;
    fn try_send(t: &Self::Tx, v: Self::P) -> Result<(), TrySendError<Self::P>>;
    fn close_tx(t: &Self::Tx) -> CloseStatus;
    fn receive(r: &Self::Rx) -> Self::RecvFut;
    fn try_receive(r: &Self::Rx) -> Result<Self::P, TryReceiveError>;
    fn close_rx(r: &Self::Rx) -> CloseStatus;
    fn stream(r: Self::Rx) -> Self::Strm;
    /// `SharedStream::close()` (shared flavour only)
    fn close_stream(s: &Self::Strm) -> Option<CloseStatus>;
    fn cancel(f: Pin<&mut Self::SendFut>) -> Option<Self::P>;
    fn snapshot(o: &Self::Obs, is_live: IsLive<'_>) -> Snapshot;
}

pub struct Borrowed<M, A>(std::marker::PhantomData<(M, A)>);
impl<M: RawMutex + 'static, A: RingBuf + 'static> MpmcApi for Borrowed<M, A>
where
    A::Item: Payload,
{
    type P = A::Item;
    type Root = Owned<GenericChannel<M, A::Item, A>>;
    type Tx = &'static GenericChannel<M, A::Item, A>;
    type Rx = &'static GenericChannel<M, A::Item, A>;
    type Obs = &'static GenericChannel<M, A::Item, A>;
    type SendFut = ChannelSendFuture<'static, M, A::Item>;
    type RecvFut = ChannelReceiveFuture<'static, M, A::Item>;
    type Strm = ChannelStream<'static, M, A::Item, A>;
    const SHARED: bool = false;
    const GROWING: bool = false;
    fn create(cap: usize) -> (Self::Root, Self::Tx, Self::Rx, Self::Obs) {
        // the world drops every future before the root
        let (b, r) = Owned::new(GenericChannel::<M, A::Item, A>::with_capacity(cap));
        (b, r, r, r)
    }
    fn clone_tx(t: &Self::Tx) -> Self::Tx {
        *t
    }
    fn clone_rx(r: &Self::Rx) -> Self::Rx {
        *r
    }
    fn send(t: &Self::Tx, v: A::Item) -> Self::SendFut {
        t.send(v)
    }
    fn try_send(t: &Self::Tx, v: A::Item) -> Result<(), TrySendError<A::Item>> {
        t.try_send(v)
    }
    fn close_tx(t: &Self::Tx) -> CloseStatus {
        t.close()
    }
    fn receive(r: &Self::Rx) -> Self::RecvFut {
        r.receive()
    }
    fn try_receive(r: &Self::Rx) -> Result<A::Item, TryReceiveError> {
        r.try_receive()
    }
    fn close_rx(r: &Self::Rx) -> CloseStatus {
        r.close()
    }
    fn stream(r: Self::Rx) -> Self::Strm {
        r.stream()
    }
    fn close_stream(_s: &Self::Strm) -> Option<CloseStatus> {
        None
    }
    fn cancel(f: Pin<&mut Self::SendFut>) -> Option<A::Item> {
        // Safety: cancel() does not move the future
        unsafe { f.get_unchecked_mut() }.cancel()
    }
    fn snapshot(o: &Self::Obs, is_live: IsLive<'_>) -> Snapshot {
        o.verif_snapshot(is_live)
    }
}

pub struct Shared<M, A, const GROW: bool>(std::marker::PhantomData<(M, A)>);
impl<M: RawMutex + 'static, A: RingBuf + 'static, const GROW: bool> MpmcApi for Shared<M, A, GROW>
where
    A::Item: Payload + Send,
{
    type P = A::Item;
    type Root = ();
    type Tx = GenericSender<M, A::Item, A>;
    type Rx = GenericReceiver<M, A::Item, A>;
    type Obs = VerifChannelObserver<M, A::Item, A>;
    type SendFut = shared::ChannelSendFuture<M, A::Item>;
    type RecvFut = shared::ChannelReceiveFuture<M, A::Item>;
    type Strm = SharedStream<M, A::Item, A>;
    const SHARED: bool = true;
    const GROWING: bool = GROW;
    fn create(cap: usize) -> (Self::Root, Self::Tx, Self::Rx, Self::Obs) {
        let (tx, rx) = shared::generic_channel::<M, A::Item, A>(cap);
        let obs = tx.verif_observer();
        ((), tx, rx, obs)
    }
    fn clone_tx(t: &Self::Tx) -> Self::Tx {
        t.clone()
    }
    fn clone_rx(r: &Self::Rx) -> Self::Rx {
        r.clone()
    }
    fn send(t: &Self::Tx, v: A::Item) -> Self::SendFut {
        t.send(v)
    }
    fn try_send(t: &Self::Tx, v: A::Item) -> Result<(), TrySendError<A::Item>> {
        t.try_send(v)
    }
    fn close_tx(t: &Self::Tx) -> CloseStatus {
        t.close()
    }
    fn receive(r: &Self::Rx) -> Self::RecvFut {
        r.receive()
    }
    fn try_receive(r: &Self::Rx) -> Result<A::Item, TryReceiveError> {
        r.try_receive()
    }
    fn close_rx(r: &Self::Rx) -> CloseStatus {
        r.close()
    }
    fn stream(r: Self::Rx) -> Self::Strm {
        r.into_stream()
    }
    fn close_stream(s: &Self::Strm) -> Option<CloseStatus> {
        Some(s.close())
    }
    fn cancel(f: Pin<&mut Self::SendFut>) -> Option<A::Item> {
        // Safety: cancel() does not move the future
        unsafe { f.get_unchecked_mut() }.cancel()
    }
    fn snapshot(o: &Self::Obs, is_live: IsLive<'_>) -> Snapshot {
        o.verif_snapshot(is_live)
    }
}

#[derive(Clone, Copy, PartialEq, Eq, Debug)]
enum SState {
    None,
    Fresh,
    Parked,
    Accepted,
    Rejected,
    Done,
}

#[derive(Clone, Copy, PartialEq, Eq, Debug)]
enum Loc {
    Unused,
    InSender,
    Buffered,
    Delivered,
    HandedBack,
    Dropped,
}

enum RecvOutcome {
    Value(u32),
    Closed,
    Empty,
}

pub struct MpmcWorld<A: MpmcApi> {
    sends: Arena<A::SendFut>,
    recvs: Arena<A::RecvFut>,
    streams: Arena<A::Strm>,
    txs: Vec<Option<A::Tx>>,
    rxs: Vec<Option<A::Rx>>,
    obs: Option<A::Obs>,
    root: Option<A::Root>,
    prim_alive: bool,
    // model
    cap: usize,
    buf: VecDeque<u32>,
    parked: VecDeque<(usize, u32)>,
    closed: bool,
    ever_closed_explicitly: bool,
    sstate: [SState; MAX_IDS],
    stag: [u32; MAX_IDS],
    loc: Vec<Loc>,
    n_tx: usize,
    n_rx: usize,
    used: [bool; MAX_IDS],
    expected_lib_drops: Vec<u32>,
    last_receiver_gone_in_this_op: bool,
    // generation
    k: usize,
    realism: u64,
    weights: [u32; NW],
    next_id: usize,
    next_tag: u32,
    prefill_left: u64,
    /// try_receive operations right after the prefill burst (a long backlog drained in one go)
    drain_left: u64,
    /// a burst of NewRecv / Poll pairs at the start of the run (many simultaneous receivers)
    burst_left: u64,
    burst_poll: Option<usize>,
    observer_on: bool,
}

impl<A: MpmcApi> MpmcWorld<A> {
    fn owners(&self, env: &Env) -> usize {
        let h = self.txs.iter().flatten().count() + self.rxs.iter().flatten().count() + self.obs.is_some() as usize;
        let f = env.live.iter().filter(|id| {
            let s = env.slots[**id];
            if s.kind == K_STREAM {
                true
            } else {
                matches!(s.st, St::Fresh | St::Pending)
            }
        })
        .count();
        h + f
    }

    fn model_close(&mut self) {
        self.closed = true;
        for (sid, _) in self.parked.drain(..) {
            self.sstate[sid] = SState::Rejected;
        }
    }

    fn model_recv(&mut self, env: &mut Env) -> RecvOutcome {
        if let Some(t) = self.buf.pop_front() {
            if let Some((sid, t2)) = self.parked.pop_front() {
                self.buf.push_back(t2);
                self.loc[t2 as usize] = Loc::Buffered;
                self.sstate[sid] = SState::Accepted;
                env.probe("refill_from_parked_sender");
            }
            RecvOutcome::Value(t)
        } else if let Some((sid, t)) = self.parked.pop_front() {
            self.sstate[sid] = SState::Accepted;
            env.probe("rendezvous_take_from_parked_sender");
            RecvOutcome::Value(t)
        } else if self.closed {
            RecvOutcome::Closed
        } else {
            RecvOutcome::Empty
        }
    }

    /// what an attempting receive would observe, without changing the model
    fn peek_recv(&self) -> RecvOutcome {
        if let Some(t) = self.buf.front() {
            RecvOutcome::Value(*t)
        } else if let Some((_, t)) = self.parked.front() {
            RecvOutcome::Value(*t)
        } else if self.closed {
            RecvOutcome::Closed
        } else {
            RecvOutcome::Empty
        }
    }

    /// A receive operation (future, stream or try_receive) yielded `got`.
    /// `may_stay_pending`: the poll was of a pending, un-woken future (allowed-set rule).
    /// Returns true if the observed outcome was legal.
    fn judge_recv(&mut self, env: &mut Env, who: &str, got: Option<Option<u32>>, may_stay_pending: bool) -> bool {
        // got: None = Pending/Empty, Some(None) = closed (None), Some(Some(tag)) = value
        match got {
            None => {
                if may_stay_pending {
                    return true;
                }
                match self.peek_recv() {
                    RecvOutcome::Empty => true,
                    RecvOutcome::Value(t) => {
                        env.fail("C09", "value-not-received", format!("{} found nothing although value {} is available", who, t), true);
                        false
                    }
                    RecvOutcome::Closed => {
                        env.fail("C11", "closed-not-reported", format!("{} stayed pending/empty although the channel is closed and drained", who), true);
                        false
                    }
                }
            }
            Some(None) => match self.peek_recv() {
                RecvOutcome::Closed => true,
                RecvOutcome::Value(t) => {
                    if who.starts_with("stream") {
                        // C17: a stream ends (None) only once the channel is closed and drained
                        env.fail("C17", "stream-ended-early", format!("{} yielded None although value {} accepted before the close is still undelivered", who, t), true);
                    }
                    env.fail("C11", "closed-before-drained", format!("{} reported the channel closed although value {} accepted before the close is still undelivered", who, t), true);
                    false
                }
                RecvOutcome::Empty => {
                    if who.starts_with("stream") {
                        env.fail("C17", "stream-ended-early", format!("{} yielded None (end of stream) although the channel is open", who), true);
                    } else {
                        // C17: a receive future completes with None only on a closed, drained channel
                        env.fail("C17", "completed-with-none-while-open", format!("{} completed with None although the channel is open", who), true);
                    }
                    env.fail("C11", "closed-while-open", format!("{} reported the channel closed although it is open", who), true);
                    false
                }
            },
            Some(Some(tag)) => {
                let tl = self.loc.get(tag as usize).copied().unwrap_or(Loc::Unused);
                if !matches!(tl, Loc::Buffered | Loc::InSender) {
                    env.fail("C08", "duplicate-or-phantom-value", format!("{} yielded value {} which is {:?}, not in flight", who, tag, tl), true);
                    return false;
                }
                match self.model_recv(env) {
                    RecvOutcome::Value(t) if t == tag => {
                        self.loc[tag as usize] = Loc::Delivered;
                        true
                    }
                    RecvOutcome::Value(t) => {
                        env.fail("C09", "fifo-order", format!("{} yielded value {} but the oldest accepted value is {}", who, tag, t), true);
                        false
                    }
                    _ => {
                        env.fail("C09", "fifo-order", format!("{} yielded value {} but the reference FIFO holds no value", who, tag), true);
                        false
                    }
                }
            }
        }
    }

    fn check(&mut self, env: &mut Env, op: Op, owners_before: usize) {
        env.collect_wakes();
        if env.has_fatal() {
            return;
        }
        let opname = OP_NAMES[op.k as usize];
        // C08: values dropped inside the library calls of this operation
        let mut dropped = val::drain_recent();
        let mut want = std::mem::take(&mut self.expected_lib_drops);
        want.sort_unstable();
        if A::P::ZST && dropped.len() == want.len() {
            // values without identity: the number of drops is what can be compared
            dropped = want.clone();
        }
        if dropped != want {
            if self.last_receiver_gone_in_this_op {
                env.fail("C11", "buffer-not-discarded", format!("{}: the last receiver is gone, buffered values {:?} must be discarded immediately, but the library dropped {:?}", opname, want, dropped), true);
            }
            env.fail("C08", "unexpected-drop", format!("{}: values dropped inside the library: {:?}, expected by the model: {:?}", opname, dropped, want), true);
            return;
        }
        for t in &dropped {
            self.loc[*t as usize] = Loc::Dropped;
        }
        // C18
        let owners_after = self.owners(env);
        let last_owner_gone = A::SHARED && owners_before > 0 && owners_after == 0;
        let allow = AllocAllow { allocs: A::GROWING, deallocs: last_owner_gone || op.k == OP_DROP_PRIM };
        oracle::c18_alloc(env, allow, opname);
        // C17
        for i in 0..env.live.len() {
            let id = env.live[i];
            let t = match env.slots[id].kind {
                K_SEND => self.sends.get(id).is_terminated(),
                K_RECV => self.recvs.get(id).is_terminated(),
                _ => self.streams.get(id).is_terminated(),
            };
            oracle::c17_terminated(env, id, t);
            // C11: values accepted before the close stay receivable; a stream that declares
            // itself finished while such values are undelivered withholds them from every
            // consumer that honours FusedStream (select!, select_next_some)
            if t && env.slots[id].kind == K_STREAM && env.slots[id].st != St::Done && self.closed {
                if let RecvOutcome::Value(v) = self.peek_recv() {
                    env.fail("C11", "terminated-before-drained", format!("after {}: stream #{} reports is_terminated() on the closed channel although value {} accepted before the close is still undelivered", opname, id, v), false);
                }
            }
        }
        // C10: no lost wake-up (from the reference model)
        let avail = !self.buf.is_empty() || !self.parked.is_empty() && self.cap == 0;
        let mut pending_recv = 0;
        let mut woken_recv = 0;
        for i in 0..env.live.len() {
            let id = env.live[i];
            let s = env.slots[id];
            if s.st != St::Pending {
                continue;
            }
            if s.kind == K_SEND {
                if self.sstate[id] == SState::Accepted && !s.uw() {
                    env.fail("C10", "accepted-sender-not-woken", format!("after {}: the value of send future #{} was accepted but the future holds no wake-up", opname, id), false);
                }
            } else {
                pending_recv += 1;
                woken_recv += s.uw() as usize;
            }
            if self.closed && !s.uw() {
                let (p, o) = if self.ever_closed_explicitly { ("C11", "close-did-not-wake") } else { ("C11", "implicit-close-did-not-wake") };
                env.fail(p, o, format!("after {}: the channel is closed but pending future #{} holds no wake-up through its latest waker", opname, id), false);
                env.fail("C10", "close-did-not-wake", format!("after {}: the channel is closed but pending future #{} holds no wake-up", opname, id), false);
            }
        }
        if avail && pending_recv > 0 && woken_recv == 0 {
            env.fail(
                "C10",
                "value-available-no-receiver-woken",
                format!("after {}: a value is available ({} buffered, {} parked sender(s)) and {} receive future(s) are pending, but none of them holds a wake-up through its latest waker", opname, self.buf.len(), self.parked.len(), pending_recv),
                false,
            );
        }
        // C09 capacity bound is structural in the model; cross-check model sanity
        if self.buf.len() > self.cap {
            env.fail("HARNESS", "model-capacity", "reference model exceeded its capacity".into(), true);
            return;
        }
        if !self.prim_alive {
            return;
        }
        let obs = match &self.obs {
            Some(o) => o,
            None => return,
        };
        let (sends, recvs, streams) = (&self.sends, &self.recvs, &self.streams);
        let find = |addr: usize| -> Option<(usize, u8)> {
            sends.find(addr).map(|id| (id, K_SEND)).or_else(|| recvs.find(addr).map(|id| (id, K_RECV))).or_else(|| streams.find(addr).map(|id| (id, K_STREAM)))
        };
        let snap = A::snapshot(obs, &mut |addr| find(addr).is_some());
        let orders = oracle::c01_membership(
            env,
            &snap,
            &find,
            &[QueueKind { name: "receive_waiters", kinds: &[K_RECV, K_STREAM] }, QueueKind { name: "send_waiters", kinds: &[K_SEND] }],
        );
        if env.has_fatal() {
            return;
        }
        // C11: closed-ness and handle counts are exactly the model's
        let sc = snap.scalar("is_closed").unwrap_or(0) != 0;
        if sc != self.closed {
            env.fail(
                "C11",
                "closed-state",
                format!("after {}: the channel is {} but the model ({} sender / {} receiver handle(s) alive, explicit close: {}) says {}", opname, if sc { "closed" } else { "open" }, self.n_tx, self.n_rx, self.ever_closed_explicitly, if self.closed { "closed" } else { "open" }),
                true,
            );
            return;
        }
        if snap.scalar("buffer_len") != Some(self.buf.len() as u64) {
            let (p, o) = if op.k == OP_DROP_RX { ("C11", "buffer-not-discarded") } else { ("C09", "buffer-length") };
            env.fail(p, o, format!("after {}: {} value(s) buffered, model says {}", opname, snap.scalar("buffer_len").unwrap_or(0), self.buf.len()), true);
            return;
        }
        // the send queue holds exactly the parked senders, oldest first
        if let Some(order) = orders.get(1) {
            let model_order: Vec<usize> = self.parked.iter().map(|(id, _)| *id).collect();
            if *order != model_order {
                // the internal order is the mechanism, not the property: only a different *set* of
                // parked senders gates here; a different order shows up at the next receive (fifo-order)
                let (mut a, mut b) = (order.clone(), model_order.clone());
                a.sort_unstable();
                b.sort_unstable();
                if a != b {
                    env.fail("C09", "parked-set", format!("after {}: senders parked: {:?}, model says {:?}", opname, order, model_order), false);
                } else {
                    env.probe("parked_order_differs_from_model");
                }
            }
        }
        let model = [self.closed as u64, self.buf.len() as u64, self.parked.len() as u64, self.cap as u64, self.n_tx as u64, self.n_rx as u64];
        let sh = oracle::state_hash(env, Some(&snap), &orders, &model);
        env.push_state(sh, op.k);
    }

    /// `exp`: the tag a value without identity (zero-sized payload) is taken to be
    fn consume(v: A::P, exp: u32) -> u32 {
        let t = v.tag().unwrap_or(exp);
        drop(v); // harness-side drop (outside any library call)
        t
    }

    /// the value the reference model would deliver next (zero-sized payloads only)
    fn exp_recv(&self) -> u32 {
        match self.peek_recv() {
            RecvOutcome::Value(t) => t,
            _ => (val::MAX_TAGS - 1) as u32,
        }
    }

    fn drop_any(&mut self, env: &mut Env, id: usize) -> bool {
        if !env.slots[id].alive() {
            return false;
        }
        let kind = env.slots[id].kind;
        let live = match kind {
            K_SEND => self.sends.is_live(id),
            K_RECV => self.recvs.is_live(id),
            _ => self.streams.is_live(id),
        };
        if !live {
            return false;
        }
        let pos = if env.slots[id].st == St::Pending {
            let pend = env.pending_sorted(kind);
            pend.iter().position(|x| *x == id).map(|p| (p, pend.len()))
        } else {
            None
        };
        if kind == K_SEND {
            match self.sstate[id] {
                SState::Fresh | SState::Parked | SState::Rejected => {
                    self.expected_lib_drops.push(self.stag[id]);
                    if self.sstate[id] == SState::Parked {
                        let ppos = self.parked.iter().position(|(s, _)| *s == id);
                        if let Some(p) = ppos {
                            if p > 0 && p + 1 < self.parked.len() {
                                env.fault("cancel_parked_sender_middle");
                            }
                            self.parked.remove(p);
                        }
                    }
                }
                _ => {}
            }
            self.sstate[id] = SState::Done;
        }
        if kind == K_STREAM && A::SHARED {
            // the stream owns a receiver handle
            self.n_rx -= 1;
            if self.n_rx == 0 {
                if !self.closed {
                    self.model_close();
                }
                self.expected_lib_drops.extend(self.buf.drain(..));
            }
        }
        env.note_drop(id, pos);
        match kind {
            K_SEND => {
                let p = self.sends.take_for_drop(id);
                env.call("drop send future", || unsafe { std::ptr::drop_in_place(p) });
            }
            K_RECV => {
                let p = self.recvs.take_for_drop(id);
                env.call("drop receive future", || unsafe { std::ptr::drop_in_place(p) });
            }
            _ => {
                let p = self.streams.take_for_drop(id);
                env.call("drop stream", || unsafe { std::ptr::drop_in_place(p) });
            }
        }
        true
    }
}

impl<A: MpmcApi> World for MpmcWorld<A> {
    fn new(cfg: &Cfg, env: &mut Env) -> Self {
        val::reset();
        let cap = cfg_get(cfg, "cap", 1) as usize;
        let (root, tx, rx, obs) = A::create(cap);
        // array-backed buffers ignore the requested capacity: their length is the capacity.
        // The model's capacity is what was asked for, never what the buffer reports.
        let flavour = (cfg_get(cfg, "flavour", 0).max(0) as usize).min(NFLAV - 1);
        let cap = FLAVOURS[flavour].1.unwrap_or(cap);
        if let Some(reported) = A::snapshot(&obs, &mut |_| false).scalar("buffer_capacity") {
            if reported != cap as u64 {
                env.fail("C09", "capacity-mismatch", format!("a channel created with capacity {} reports a buffer capacity of {}", cap, reported), true);
            }
        }
        let observer_on = !A::SHARED || cfg_get(cfg, "observer", 1) != 0;
        let mut txs: Vec<Option<A::Tx>> = (0..MAX_HANDLES).map(|_| None).collect();
        let mut rxs: Vec<Option<A::Rx>> = (0..MAX_HANDLES).map(|_| None).collect();
        txs[0] = Some(tx);
        rxs[0] = Some(rx);
        let mut weights = [0u32; NW];
        for (i, w) in weights.iter_mut().enumerate() {
            *w = cfg_get(cfg, WK[i], 10) as u32;
        }
        MpmcWorld {
            sends: Arena::new(),
            recvs: Arena::new(),
            streams: Arena::new(),
            txs,
            rxs,
            obs: if observer_on { Some(obs) } else { None },
            root: Some(root),
            prim_alive: true,
            cap,
            buf: VecDeque::new(),
            parked: VecDeque::new(),
            closed: false,
            ever_closed_explicitly: false,
            sstate: [SState::None; MAX_IDS],
            stag: [0; MAX_IDS],
            loc: vec![Loc::Unused; val::MAX_TAGS],
            n_tx: 1,
            n_rx: 1,
            used: [false; MAX_IDS],
            expected_lib_drops: Vec::new(),
            last_receiver_gone_in_this_op: false,
            k: cfg_get(cfg, "k", 3) as usize,
            realism: cfg_get(cfg, "realism", 50) as u64,
            weights,
            next_id: 0,
            next_tag: 1,
            prefill_left: cfg_get(cfg, "prefill", 0).max(0) as u64,
            drain_left: cfg_get(cfg, "drain", 0).max(0) as u64,
            burst_left: cfg_get(cfg, "burst", 0).max(0) as u64,
            burst_poll: None,
            observer_on,
        }
    }

    fn gen(&mut self, rng: &mut Rng, env: &Env, teardown: bool) -> Option<Op> {
        let live = &env.live;
        let txs: Vec<usize> = (0..MAX_HANDLES).filter(|i| self.txs[*i].is_some()).collect();
        let rxs: Vec<usize> = (0..MAX_HANDLES).filter(|i| self.rxs[*i].is_some()).collect();
        if teardown {
            let mut cands: Vec<Op> = live.iter().map(|id| Op::new(OP_DROP, *id as u32, 0, 0)).collect();
            if A::SHARED {
                for t in &txs {
                    cands.push(Op::new(OP_DROP_TX, *t as u32, 0, 0));
                }
                for r in &rxs {
                    cands.push(Op::new(OP_DROP_RX, *r as u32, 0, 0));
                }
            }
            if cands.is_empty() {
                return if self.prim_alive { Some(Op::new(OP_DROP_PRIM, 0, 0, 0)) } else { None };
            }
            return Some(*rng.pick(&cands));
        }
        if (self.burst_left > 0 || self.burst_poll.is_some()) && self.next_id < MAX_IDS - 1 && !rxs.is_empty() {
            if let Some(id) = self.burst_poll.take() {
                return Some(Op::new(OP_POLL, id as u32, 0, 0));
            }
            self.burst_left -= 1;
            self.next_id += 1;
            let id = self.next_id - 1;
            self.burst_poll = Some(id);
            return Some(Op::new(OP_NEW_RECV, id as u32, *rng.pick(&rxs) as u32, 0));
        }
        if self.prefill_left > 0 && !txs.is_empty() && (self.next_tag as usize) < val::MAX_TAGS - 1 {
            self.prefill_left -= 1;
            self.next_tag += 1;
            return Some(Op::new(OP_TRY_SEND, 0, *rng.pick(&txs) as u32, (self.next_tag - 1) as u64));
        }
        if self.prefill_left == 0 && self.drain_left > 0 && !rxs.is_empty() {
            self.drain_left -= 1;
            return Some(Op::new(OP_TRY_RECV, 0, *rng.pick(&rxs) as u32, 0));
        }
        let pollable: Vec<usize> = live.iter().copied().filter(|id| matches!(env.slots[*id].st, St::Fresh | St::Pending)).collect();
        let done: Vec<usize> = live.iter().copied().filter(|id| env.slots[*id].st == St::Done).collect();
        let send_futs: Vec<usize> = live.iter().copied().filter(|id| env.slots[*id].kind == K_SEND && env.slots[*id].st != St::Done).collect();
        let n_send = send_futs.len();
        let n_recv = pollable.len() - pollable.iter().filter(|id| env.slots[**id].kind == K_SEND).count();
        let ids_left = self.next_id < MAX_IDS - 1;
        let tags_left = (self.next_tag as usize) < val::MAX_TAGS - 1;
        let has_stream = live.iter().any(|id| env.slots[*id].kind == K_STREAM);
        let mut w = self.weights;
        if n_send >= self.k || !ids_left || !tags_left || txs.is_empty() {
            w[0] = 0;
        }
        if pollable.is_empty() {
            w[1] = 0;
        }
        if live.is_empty() {
            w[2] = 0;
        }
        if send_futs.is_empty() {
            w[3] = 0;
        }
        if self.cap == 0 || !tags_left || txs.is_empty() {
            w[4] = 0;
        }
        if n_recv >= self.k || !ids_left || rxs.is_empty() {
            w[5] = 0;
        }
        if rxs.is_empty() {
            w[6] = 0;
        }
        if txs.is_empty() && rxs.is_empty() && !(A::SHARED && has_stream) {
            w[7] = 0;
        }
        if !A::SHARED || txs.is_empty() || txs.len() >= MAX_HANDLES {
            w[8] = 0;
        }
        if !A::SHARED || txs.is_empty() {
            w[9] = 0;
        }
        if !A::SHARED || rxs.is_empty() || rxs.len() >= MAX_HANDLES {
            w[10] = 0;
        }
        if !A::SHARED || rxs.is_empty() {
            w[11] = 0;
        }
        if has_stream || !ids_left || rxs.is_empty() {
            w[12] = 0;
        }
        if done.is_empty() {
            w[13] = 0;
        }
        if w.iter().all(|x| *x == 0) {
            return None;
        }
        Some(match rng.weighted(&w) as u16 {
            OP_NEW_SEND => {
                self.next_id += 1;
                self.next_tag += 1;
                Op::new(OP_NEW_SEND, (self.next_id - 1) as u32, *rng.pick(&txs) as u32, (self.next_tag - 1) as u64)
            }
            OP_POLL => {
                let woken: Vec<usize> = pollable.iter().copied().filter(|id| env.slots[*id].uw() || env.slots[*id].st == St::Fresh).collect();
                let id = if !woken.is_empty() && rng.pct(self.realism) { *rng.pick(&woken) } else { *rng.pick(&pollable) };
                let v = if rng.pct(25) { rng.below(2) as u32 } else { env.slots[id].last_variant as u32 };
                Op::new(OP_POLL, id as u32, v, 0)
            }
            OP_DROP => {
                let pend: Vec<usize> = live.iter().copied().filter(|id| env.slots[*id].st == St::Pending).collect();
                let id = if !pend.is_empty() && rng.pct(70) { *rng.pick(&pend) } else { *rng.pick(live) };
                Op::new(OP_DROP, id as u32, 0, 0)
            }
            OP_CANCEL => Op::new(OP_CANCEL, *rng.pick(&send_futs) as u32, 0, 0),
            OP_TRY_SEND => {
                self.next_tag += 1;
                Op::new(OP_TRY_SEND, 0, *rng.pick(&txs) as u32, (self.next_tag - 1) as u64)
            }
            OP_NEW_RECV => {
                self.next_id += 1;
                Op::new(OP_NEW_RECV, (self.next_id - 1) as u32, *rng.pick(&rxs) as u32, 0)
            }
            OP_TRY_RECV => Op::new(OP_TRY_RECV, 0, *rng.pick(&rxs) as u32, 0),
            OP_CLOSE => {
                let stream_id = live.iter().copied().find(|id| env.slots[*id].kind == K_STREAM);
                if A::SHARED && stream_id.is_some() && rng.pct(40) {
                    Op::new(OP_CLOSE, 2, 0, stream_id.unwrap() as u64)
                } else if txs.is_empty() && rxs.is_empty() {
                    Op::new(OP_CLOSE, 2, 0, stream_id.unwrap_or(0) as u64)
                } else if !txs.is_empty() && (rxs.is_empty() || rng.pct(50)) {
                    Op::new(OP_CLOSE, 0, *rng.pick(&txs) as u32, 0)
                } else {
                    Op::new(OP_CLOSE, 1, *rng.pick(&rxs) as u32, 0)
                }
            }
            OP_CLONE_TX => Op::new(OP_CLONE_TX, (0..MAX_HANDLES).find(|i| self.txs[*i].is_none()).unwrap() as u32, *rng.pick(&txs) as u32, 0),
            OP_DROP_TX => Op::new(OP_DROP_TX, *rng.pick(&txs) as u32, 0, 0),
            OP_CLONE_RX => Op::new(OP_CLONE_RX, (0..MAX_HANDLES).find(|i| self.rxs[*i].is_none()).unwrap() as u32, *rng.pick(&rxs) as u32, 0),
            OP_DROP_RX => Op::new(OP_DROP_RX, *rng.pick(&rxs) as u32, 0, 0),
            OP_NEW_STREAM => {
                self.next_id += 1;
                Op::new(OP_NEW_STREAM, (self.next_id - 1) as u32, *rng.pick(&rxs) as u32, 0)
            }
            _ => Op::new(OP_POLL_COMPLETED, *rng.pick(&done) as u32, 0, 0),
        })
    }

    fn exec(&mut self, op: Op, env: &mut Env) {
        let id = op.a as usize % MAX_IDS;
        let hidx = op.b as usize % MAX_HANDLES;
        let owners_before = self.owners(env);
        let n_rx_before = self.n_rx;
        match op.k {
            OP_NEW_SEND => {
                let tag = (op.c as usize % val::MAX_TAGS) as u32;
                if self.prim_alive && !self.used[id] && self.loc[tag as usize] == Loc::Unused {
                    if let Some(tx) = self.txs[hidx].as_ref() {
                        if let Some(f) = env.call("send", || A::send(tx, A::P::make(tag))) {
                            self.used[id] = true;
                            self.sends.put(id, f);
                            self.sstate[id] = SState::Fresh;
                            self.stag[id] = tag;
                            self.loc[tag as usize] = Loc::InSender;
                            env.slot_create(id, K_SEND, 0);
                        }
                    }
                }
            }
            OP_NEW_RECV => {
                if self.prim_alive && !self.used[id] {
                    if let Some(rx) = self.rxs[hidx].as_ref() {
                        if let Some(f) = env.call("receive", || A::receive(rx)) {
                            self.used[id] = true;
                            self.recvs.put(id, f);
                            env.slot_create(id, K_RECV, 0);
                        }
                    }
                }
            }
            OP_NEW_STREAM => {
                if self.prim_alive && !self.used[id] && self.rxs[hidx].is_some() {
                    // shared: the stream consumes the receiver handle; borrowed: a copy of the reference
                    let rx = if A::SHARED { self.rxs[hidx].take().unwrap() } else { A::clone_rx(self.rxs[hidx].as_ref().unwrap()) };
                    if let Some(s) = env.call("stream", || A::stream(rx)) {
                        self.used[id] = true;
                        self.streams.put(id, s);
                        env.slot_create(id, K_STREAM, 0);
                        env.fault("stream_consumer");
                    }
                }
            }
            OP_POLL => {
                if env.slots[id].alive() {
                    match env.slots[id].kind {
                        K_SEND => {
                            if let Some(out) = poll_fut(env, &mut self.sends, id, (op.b & 1) as u8) {
                                let tag = self.stag[id];
                                // exact expectation from the model
                                #[derive(PartialEq, Debug)]
                                enum Exp {
                                    Ok,
                                    Err,
                                    Pending,
                                }
                                let exp = match self.sstate[id] {
                                    SState::Fresh => {
                                        if self.closed {
                                            Exp::Err
                                        } else if self.cap > 0 && self.buf.len() < self.cap {
                                            Exp::Ok
                                        } else {
                                            Exp::Pending
                                        }
                                    }
                                    SState::Parked => Exp::Pending,
                                    SState::Accepted => Exp::Ok,
                                    SState::Rejected => Exp::Err,
                                    _ => Exp::Pending,
                                };
                                match out.res {
                                    None => {}
                                    Some(Poll::Ready(Ok(()))) => {
                                        env.end_poll(id, true);
                                        if exp != Exp::Ok {
                                            let (p, o) = if self.closed { ("C11", "send-after-close-succeeded") } else { ("C09", "send-completed-unstored") };
                                            env.fail(p, o, format!("send future #{} (value {}) reported success but the model expects {:?}: the value is neither stored in the buffer nor taken by a receiver", id, tag, exp), true);
                                        } else if self.sstate[id] == SState::Fresh {
                                            self.buf.push_back(tag);
                                            self.loc[tag as usize] = Loc::Buffered;
                                        }
                                        self.sstate[id] = SState::Done;
                                    }
                                    Some(Poll::Ready(Err(ChannelSendError(v)))) => {
                                        env.end_poll(id, true);
                                        let got = Self::consume(v, tag);
                                        if exp != Exp::Err {
                                            env.fail("C11", "send-failed-while-open", format!("send future #{} failed although the channel is open (model expects {:?})", id, exp), true);
                                        } else if got != tag {
                                            env.fail("C11", "wrong-value-handed-back", format!("send future #{} got value {} back but sent {}", id, got, tag), true);
                                        } else {
                                            self.loc[tag as usize] = Loc::HandedBack;
                                        }
                                        self.sstate[id] = SState::Done;
                                    }
                                    Some(Poll::Pending) => {
                                        env.end_poll(id, false);
                                        if exp != Exp::Pending {
                                            let (p, o) = if exp == Exp::Err { ("C11", "pending-after-close") } else { ("C09", "send-not-completed") };
                                            env.fail(p, o, format!("send future #{} stayed pending but the model expects {:?}", id, exp), true);
                                        } else if self.sstate[id] == SState::Fresh {
                                            self.sstate[id] = SState::Parked;
                                            self.parked.push_back((id, tag));
                                        }
                                    }
                                }
                            }
                        }
                        K_RECV => {
                            if let Some(out) = poll_fut(env, &mut self.recvs, id, (op.b & 1) as u8) {
                                let may_stay = !out.was_fresh && !out.had_uw;
                                match out.res {
                                    None => {}
                                    Some(Poll::Ready(r)) => {
                                        env.end_poll(id, true);
                                        let er = self.exp_recv();
                                        let got = r.map(|v| Self::consume(v, er));
                                        self.judge_recv(env, &format!("receive future #{}", id), Some(got), may_stay);
                                        if may_stay {
                                            env.probe("unwoken_receiver_completed");
                                        }
                                    }
                                    Some(Poll::Pending) => {
                                        env.end_poll(id, false);
                                        self.judge_recv(env, &format!("receive future #{}", id), None, may_stay);
                                        if !out.was_fresh && out.had_uw {
                                            env.slots[id].wait_start = env.slots[id].last_poll_seq;
                                            env.probe("notified_receiver_found_nothing");
                                            env.fault("woken_requeued");
                                        }
                                    }
                                }
                            }
                        }
                        _ => {
                            // stream: poll_next
                            if self.streams.is_live(id) && matches!(env.slots[id].st, St::Fresh | St::Pending) {
                                let variant = (op.b & 1) as u8;
                                let was_fresh = env.slots[id].st == St::Fresh;
                                let had_uw = env.begin_poll(id, variant);
                                let waker = env.waker(id, variant).clone();
                                let mut cx = Context::from_waker(&waker);
                                let s = self.streams.pin(id);
                                let res = env.call("poll_next", || s.poll_next(&mut cx));
                                drop(waker);
                                let may_stay = !was_fresh && !had_uw;
                                match res {
                                    None => {}
                                    Some(Poll::Ready(r)) => {
                                        env.end_poll(id, true);
                                        let er = self.exp_recv();
                                        let got = r.map(|v| Self::consume(v, er));
                                        let ok = self.judge_recv(env, &format!("stream #{}", id), Some(got), may_stay);
                                        if ok && got.is_some() {
                                            // the stream lives on and has no receive in flight
                                            env.slots[id].st = St::Fresh;
                                            env.probe("stream_item");
                                        } else if ok {
                                            env.probe("stream_terminated");
                                        }
                                    }
                                    Some(Poll::Pending) => {
                                        env.end_poll(id, false);
                                        self.judge_recv(env, &format!("stream #{}", id), None, may_stay);
                                        if !was_fresh && had_uw {
                                            env.slots[id].wait_start = env.slots[id].last_poll_seq;
                                        }
                                    }
                                }
                            }
                        }
                    }
                }
            }
            OP_DROP => {
                self.drop_any(env, id);
            }
            OP_CANCEL => {
                if self.sends.is_live(id) && env.slots[id].alive() && env.slots[id].kind == K_SEND && env.slots[id].st != St::Done {
                    let tag = self.stag[id];
                    let exp_some = matches!(self.sstate[id], SState::Fresh | SState::Parked | SState::Rejected);
                    if self.sstate[id] == SState::Parked {
                        env.fault("cancel_parked_sender");
                    }
                    let f = self.sends.pin(id);
                    if let Some(r) = env.call("cancel", || A::cancel(f)) {
                        let got = r.map(|v| Self::consume(v, tag));
                        env.log.add(got.map(|t| t as u64 + 1).unwrap_or(0));
                        match (got, exp_some) {
                            (Some(t), true) if t == tag => {
                                self.loc[tag as usize] = Loc::HandedBack;
                            }
                            (Some(t), _) => {
                                env.fail("C08", "cancel-returned-wrong-value", format!("cancel() of send future #{} returned value {} (sent {}, model state {:?})", id, t, tag, self.sstate[id]), true);
                            }
                            (None, true) => {
                                env.fail("C08", "cancel-lost-value", format!("cancel() of send future #{} returned nothing although its value {} was never accepted", id, tag), true);
                            }
                            (None, false) => {}
                        }
                        if let Some(p) = self.parked.iter().position(|(s, _)| *s == id) {
                            self.parked.remove(p);
                        }
                        self.sstate[id] = SState::Done;
                        // terminated from now on (C17)
                        env.slots[id].st = St::Done;
                    }
                }
            }
            OP_TRY_SEND => {
                let tag = (op.c as usize % val::MAX_TAGS) as u32;
                if self.prim_alive && self.cap > 0 && self.loc[tag as usize] == Loc::Unused {
                    if let Some(tx) = self.txs[hidx].as_ref() {
                        if env.any_pending(K_SEND, usize::MAX) {
                            env.fault("barge");
                        }
                        if let Some(r) = env.call("try_send", || A::try_send(tx, A::P::make(tag))) {
                            match r {
                                Ok(()) => {
                                    env.log.add(1);
                                    if self.closed {
                                        env.fail("C11", "send-after-close-succeeded", format!("try_send({}) succeeded on a closed channel", tag), true);
                                    } else if self.buf.len() >= self.cap {
                                        env.fail("C09", "capacity-exceeded", format!("try_send({}) succeeded although {} of {} slots are in use", tag, self.buf.len(), self.cap), true);
                                    } else {
                                        self.buf.push_back(tag);
                                        self.loc[tag as usize] = Loc::Buffered;
                                    }
                                }
                                Err(e) => {
                                    let was_closed = e.is_closed();
                                    let got = Self::consume(e.into_inner(), tag);
                                    env.log.add(2 + was_closed as u64);
                                    if got != tag {
                                        env.fail("C11", "wrong-value-handed-back", format!("try_send({}) handed back value {}", tag, got), true);
                                    } else if was_closed != self.closed {
                                        env.fail("C11", "try-send-error-kind", format!("try_send reported {} but the channel is {}", if was_closed { "Closed" } else { "Full" }, if self.closed { "closed" } else { "open" }), true);
                                    } else if !self.closed && self.buf.len() < self.cap {
                                        env.fail("C09", "full-with-space", format!("try_send({}) reported Full with {} of {} slots in use", tag, self.buf.len(), self.cap), true);
                                    } else {
                                        self.loc[tag as usize] = Loc::HandedBack;
                                    }
                                }
                            }
                        }
                    }
                }
            }
            OP_TRY_RECV => {
                if self.prim_alive {
                    if let Some(rx) = self.rxs[hidx].as_ref() {
                        if env.any_pending(K_RECV, usize::MAX) {
                            env.fault("barge");
                        }
                        if let Some(r) = env.call("try_receive", || A::try_receive(rx)) {
                            match r {
                                Ok(v) => {
                                    let t = Self::consume(v, self.exp_recv());
                                    env.log.add(t as u64 + 10);
                                    self.judge_recv(env, "try_receive", Some(Some(t)), false);
                                }
                                Err(TryReceiveError::Closed) => {
                                    env.log.add(1);
                                    self.judge_recv(env, "try_receive", Some(None), false);
                                }
                                Err(TryReceiveError::Empty) => {
                                    env.log.add(2);
                                    self.judge_recv(env, "try_receive", None, false);
                                }
                            }
                        }
                    }
                }
            }
            OP_CLOSE => {
                if self.prim_alive {
                    let via_rx = op.a == 1;
                    let r = if op.a == 2 {
                        // SharedStream::close(): c = slot of the stream
                        let sid = op.c as usize % MAX_IDS;
                        if self.streams.is_live(sid) && env.slots[sid].alive() && env.slots[sid].kind == K_STREAM {
                            let st = self.streams.get(sid);
                            env.call("stream close", || A::close_stream(st)).flatten()
                        } else {
                            None
                        }
                    } else if via_rx {
                        match self.rxs[hidx].as_ref() {
                            Some(rx) => env.call("close", || A::close_rx(rx)),
                            None => None,
                        }
                    } else {
                        match self.txs[hidx].as_ref() {
                            Some(tx) => env.call("close", || A::close_tx(tx)),
                            None => None,
                        }
                    };
                    if let Some(status) = r {
                        env.log.add(status.is_newly_closed() as u64);
                        if env.any_pending(K_SEND, usize::MAX) {
                            env.fault("close_with_pending_send");
                        }
                        if env.any_pending(K_RECV, usize::MAX) || env.any_pending(K_STREAM, usize::MAX) {
                            env.fault("close_with_pending_recv");
                        }
                        if status.is_newly_closed() == self.closed {
                            env.fail("C11", "close-status", format!("close() returned {:?} on a channel that was {}", status, if self.closed { "already closed" } else { "open" }), true);
                        }
                        if !self.closed {
                            self.model_close();
                        }
                        self.ever_closed_explicitly = true;
                    }
                }
            }
            OP_CLONE_TX => {
                let dst = op.a as usize % MAX_HANDLES;
                if A::SHARED && self.txs[dst].is_none() {
                    let c = match self.txs[hidx].as_ref() {
                        Some(t) => env.call("clone sender", || A::clone_tx(t)),
                        None => None,
                    };
                    if c.is_some() {
                        self.txs[dst] = c;
                        self.n_tx += 1;
                    }
                }
            }
            OP_CLONE_RX => {
                let dst = op.a as usize % MAX_HANDLES;
                if A::SHARED && self.rxs[dst].is_none() {
                    let c = match self.rxs[hidx].as_ref() {
                        Some(r) => env.call("clone receiver", || A::clone_rx(r)),
                        None => None,
                    };
                    if c.is_some() {
                        self.rxs[dst] = c;
                        self.n_rx += 1;
                    }
                }
            }
            OP_DROP_TX => {
                let idx = op.a as usize % MAX_HANDLES;
                if A::SHARED {
                    if let Some(t) = self.txs[idx].take() {
                        if !env.live.is_empty() {
                            env.fault("handle_drop_with_pending_future");
                        }
                        self.n_tx -= 1;
                        if self.n_tx == 0 && !self.closed {
                            self.model_close();
                            env.fault("last_sender_dropped");
                        }
                        env.call("drop sender", || drop(t));
                    }
                }
            }
            OP_DROP_RX => {
                let idx = op.a as usize % MAX_HANDLES;
                if A::SHARED {
                    if let Some(r) = self.rxs[idx].take() {
                        if !env.live.is_empty() {
                            env.fault("handle_drop_with_pending_future");
                        }
                        self.n_rx -= 1;
                        if self.n_rx == 0 {
                            if !self.closed {
                                self.model_close();
                            }
                            if !self.buf.is_empty() {
                                env.probe("last_receiver_discards_buffer");
                            }
                            self.expected_lib_drops.extend(self.buf.drain(..));
                            env.fault("last_receiver_dropped");
                        }
                        env.call("drop receiver", || drop(r));
                    }
                }
            }
            OP_POLL_COMPLETED => {
                if env.slots[id].alive() && env.slots[id].st == St::Done {
                    match env.slots[id].kind {
                        K_SEND => {
                            poll_completed(env, &mut self.sends, id);
                        }
                        K_RECV => {
                            poll_completed(env, &mut self.recvs, id);
                        }
                        _ => {
                            // a terminated stream keeps returning None (no panic)
                            if self.streams.is_live(id) {
                                let waker = env.waker(id, 0).clone();
                                let mut cx = Context::from_waker(&waker);
                                let s = self.streams.pin(id);
                                if let Some(r) = env.call("poll_next after termination", || s.poll_next(&mut cx)) {
                                    match r {
                                        Poll::Ready(None) => env.probe("terminated_stream_polled_again"),
                                        Poll::Ready(Some(v)) => {
                                            let t = Self::consume(v, 0);
                                            env.fail("C17", "stream-after-end", format!("terminated stream #{} yielded value {}", id, t), true);
                                        }
                                        Poll::Pending => env.fail("C17", "stream-after-end", format!("terminated stream #{} returned Pending", id), true),
                                    }
                                }
                            }
                        }
                    }
                }
            }
            OP_DROP_PRIM => {
                if self.prim_alive && env.live.is_empty() && (!A::SHARED || (self.n_tx == 0 && self.n_rx == 0)) {
                    // whatever is still buffered is dropped together with the channel
                    self.expected_lib_drops.extend(self.buf.drain(..));
                    if !A::SHARED {
                        self.txs[0] = None;
                        self.rxs[0] = None;
                    }
                    // borrowed flavours: `obs` is a plain reference into the root; it must not be
                    // alive (not even captured) while the root is freed
                    let obs = if A::SHARED { self.obs.take() } else { None };
                    self.obs = None;
                    let root = self.root.take();
                    env.call("drop channel", || {
                        drop(obs);
                        drop(root);
                    });
                    self.prim_alive = false;
                }
            }
            _ => {}
        }
        // without an observer the shared state (and its buffer) dies with the last owner
        if A::SHARED && !self.observer_on && self.prim_alive && owners_before > 0 && self.owners(env) == 0 {
            self.expected_lib_drops.extend(self.buf.drain(..));
            self.prim_alive = false;
        }
        self.last_receiver_gone_in_this_op = A::SHARED && n_rx_before > 0 && self.n_rx == 0;
        self.check(env, op, owners_before);
    }

    fn finish(&mut self, env: &mut Env) {
        for id in env.live.clone() {
            run_finish_op(self, Op::new(OP_DROP, id as u32, 0, 0), env);
        }
        if A::SHARED {
            for h in 0..MAX_HANDLES {
                if self.txs[h].is_some() {
                    run_finish_op(self, Op::new(OP_DROP_TX, h as u32, 0, 0), env);
                }
            }
            for h in 0..MAX_HANDLES {
                if self.rxs[h].is_some() {
                    run_finish_op(self, Op::new(OP_DROP_RX, h as u32, 0, 0), env);
                }
            }
        }
        if self.prim_alive {
            run_finish_op(self, Op::new(OP_DROP_PRIM, 0, 0, 0), env);
        }
        if env.has_fatal() {
            return;
        }
        if A::P::ZST {
            // values without identity: as many drops as values were created
            let made = (1..val::MAX_TAGS as u32).filter(|t| self.loc[*t as usize] != Loc::Unused).count() as u32;
            let (lib, own, _) = val::counts(0);
            if (lib + own) as u32 != made {
                env.fail("C08", "drop-count", format!("{} values were created but {} were dropped ({} inside the library, {} by the harness)", made, lib + own, lib, own), false);
            }
            for tag in 1..val::MAX_TAGS as u32 {
                if matches!(self.loc[tag as usize], Loc::InSender | Loc::Buffered) {
                    env.fail("C08", "value-lost", format!("value {} is still {:?} after everything was dropped", tag, self.loc[tag as usize]), false);
                }
            }
            return;
        }
        // C08: at the end of every history each value was dropped exactly once
        for tag in 1..val::MAX_TAGS as u32 {
            let l = self.loc[tag as usize];
            if l == Loc::Unused {
                continue;
            }
            let (lib, own, _clones) = val::counts(tag);
            if lib + own != 1 {
                env.fail("C08", "drop-count", format!("value {} ({:?}) was dropped {} time(s) ({} inside the library, {} by the harness)", tag, l, lib + own, lib, own), false);
            }
            if matches!(l, Loc::InSender | Loc::Buffered) {
                env.fail("C08", "value-lost", format!("value {} is still {:?} after everything was dropped", tag, l), false);
            }
        }
    }
}

fn draw_cfg(rng: &mut Rng) -> Cfg {
    let mut c = Cfg::new();
    let flavour = rng.below(NFLAV as u64) as i64;
    c.insert("flavour".into(), flavour);
    let cap = match FLAVOURS[flavour as usize].1 {
        Some(n) => n as i64,
        // mostly tiny (every slot matters), sometimes beyond a run's usual fill level and
        // around powers of two (VecDeque growth, index wrap)
        None => {
            if FLAVOURS[flavour as usize].0.ends_with("/fat") && rng.pct(60) {
                // 8 KiB payloads: a byte-bounded reservation bites from 9 slots on
                *rng.pick(&[9, 12, 16, 17])
            } else if rng.pct(75) {
                rng.range(0, 4)
            } else {
                *rng.pick(&[5, 6, 7, 8, 9, 15, 16, 17])
            }
        }
    };
    c.insert("cap".into(), cap);
    // large buffers: a run of ordinary length never fills them, so some runs start with a burst
    // of try_send operations (part of the recorded history; `len` grows accordingly)
    let mut prefill = if cap >= 5 && rng.pct(60) { rng.range(cap / 3, cap + 1) } else { 0 };
    // growing heap buffers: now and then a backlog of 40 / 70 values that is then drained almost
    // completely (allocation growth and any shrink-after-burst logic of the buffer)
    let mut drain = 0;
    let mut cap = cap;
    if FLAVOURS[flavour as usize].0.contains("growingheap") && rng.pct(12) {
        cap = *rng.pick(&[40i64, 70]);
        c.insert("cap".into(), cap);
        prefill = cap;
        drain = cap - rng.range(1, 4);
    }
    c.insert("prefill".into(), prefill);
    c.insert("drain".into(), drain);
    // live futures: mostly few (small joint states recur), sometimes many (batch loops, deep heaps / queues)
    let k = if rng.pct(88) { rng.range(1, 4) } else { *rng.pick(&[6i64, 9]) };
    c.insert("k".into(), k);
    // rarely: more than 32 simultaneous receivers (close() and the last sender wake them all)
    let burst = if prefill == 0 && rng.pct(3) { *rng.pick(&[33i64, 34, 40]) } else { 0 };
    c.insert("burst".into(), burst);
    c.insert("len".into(), rng.range(8, 96) + prefill + drain + 2 * burst);
    c.insert("realism".into(), *rng.pick(&[10, 50, 90]));
    c.insert("observer".into(), rng.pct(80) as i64);
    let base = [150u32, 320, 90, 40, 90, 150, 70, 25, 30, 40, 30, 40, 25, 2];
    for (i, b) in base.iter().enumerate() {
        let f = *rng.pick(&[0u32, 1, 1, 1, 2, 3]);
        c.insert(WK[i].into(), (*b * f) as i64);
    }
    c.insert("w0".into(), cfg_get(&c, "w0", 150).max(75));
    c.insert("w1".into(), cfg_get(&c, "w1", 320).max(160));
    c.insert("w5".into(), cfg_get(&c, "w5", 150).max(75));
    c
}

type Arr<const N: usize> = ArrayBuf<Val, [Val; N]>;

/// A user-side `RealArray` (the documented way to get array buffers of other sizes): 96 slots,
/// above 64 and not a power of two. `ArrayBuf` keeps it in a `MaybeUninit`, it is never built.
pub struct UserArr96([Val; 96]);
unsafe impl futures_intrusive::buffer::RealArray<Val> for UserArr96 {
    const LEN: usize = 96;
}
impl AsMut<[Val]> for UserArr96 {
    fn as_mut(&mut self) -> &mut [Val] {
        &mut self.0
    }
}
impl AsRef<[Val]> for UserArr96 {
    fn as_ref(&self) -> &[Val] {
        &self.0
    }
}

/// (name, fixed capacity of the buffer type or None if the capacity is a run-time argument)
const FLAVOURS: [(&str, Option<usize>); 24] = [
    ("local/array0", Some(0)),
    ("local/array1", Some(1)),
    ("local/array2", Some(2)),
    ("local/array3", Some(3)),
    ("local/fixedheap", None),
    ("local/growingheap", None),
    ("parking_lot/array0", Some(0)),
    ("parking_lot/array2", Some(2)),
    ("parking_lot/fixedheap", None),
    ("shared/parking_lot/growingheap", None),
    ("shared/parking_lot/fixedheap", None),
    ("shared/parking_lot/array0", Some(0)),
    ("shared/parking_lot/array2", Some(2)),
    ("shared/local/growingheap", None),
    ("local/array5", Some(5)),
    ("local/array8", Some(8)),
    ("shared/local/fixedheap", None),
    ("local/fixedheap/zst", None),
    ("local/array2/zst", Some(2)),
    ("shared/parking_lot/fixedheap/zst", None),
    ("local/array0/zst", Some(0)),
    ("local/userarray96", Some(96)),
    ("local/fixedheap/fat", None),
    ("shared/parking_lot/fixedheap/fat", None),
];
const NFLAV: usize = FLAVOURS.len();

macro_rules! dispatch {
    ($f:ident, $cfg:expr, $($arg:expr),*) => {
        match cfg_get($cfg, "flavour", 0) {
            0 => $f::<MpmcWorld<Borrowed<NoopLock, Arr<0>>>>($cfg, $($arg),*),
            1 => $f::<MpmcWorld<Borrowed<NoopLock, Arr<1>>>>($cfg, $($arg),*),
            2 => $f::<MpmcWorld<Borrowed<NoopLock, Arr<2>>>>($cfg, $($arg),*),
            3 => $f::<MpmcWorld<Borrowed<NoopLock, Arr<3>>>>($cfg, $($arg),*),
            4 => $f::<MpmcWorld<Borrowed<NoopLock, FixedHeapBuf<Val>>>>($cfg, $($arg),*),
            5 => $f::<MpmcWorld<BorrowedGrowing<NoopLock>>>($cfg, $($arg),*),
            6 => $f::<MpmcWorld<Borrowed<PlLock, Arr<0>>>>($cfg, $($arg),*),
            7 => $f::<MpmcWorld<Borrowed<PlLock, Arr<2>>>>($cfg, $($arg),*),
            8 => $f::<MpmcWorld<Borrowed<PlLock, FixedHeapBuf<Val>>>>($cfg, $($arg),*),
            9 => $f::<MpmcWorld<Shared<PlLock, GrowingHeapBuf<Val>, true>>>($cfg, $($arg),*),
            10 => $f::<MpmcWorld<Shared<PlLock, FixedHeapBuf<Val>, false>>>($cfg, $($arg),*),
            11 => $f::<MpmcWorld<Shared<PlLock, Arr<0>, false>>>($cfg, $($arg),*),
            12 => $f::<MpmcWorld<Shared<PlLock, Arr<2>, false>>>($cfg, $($arg),*),
            13 => $f::<MpmcWorld<Shared<NoopLock, GrowingHeapBuf<Val>, true>>>($cfg, $($arg),*),
            14 => $f::<MpmcWorld<Borrowed<NoopLock, Arr<5>>>>($cfg, $($arg),*),
            15 => $f::<MpmcWorld<Borrowed<NoopLock, Arr<8>>>>($cfg, $($arg),*),
            16 => $f::<MpmcWorld<Shared<NoopLock, FixedHeapBuf<Val>, false>>>($cfg, $($arg),*),
            17 => $f::<MpmcWorld<Borrowed<NoopLock, FixedHeapBuf<Zst>>>>($cfg, $($arg),*),
            18 => $f::<MpmcWorld<Borrowed<NoopLock, ArrayBuf<Zst, [Zst; 2]>>>>($cfg, $($arg),*),
            19 => $f::<MpmcWorld<Shared<PlLock, FixedHeapBuf<Zst>, false>>>($cfg, $($arg),*),
            20 => $f::<MpmcWorld<Borrowed<NoopLock, ArrayBuf<Zst, [Zst; 0]>>>>($cfg, $($arg),*),
            21 => $f::<MpmcWorld<Borrowed<NoopLock, ArrayBuf<Val, UserArr96>>>>($cfg, $($arg),*),
            22 => $f::<MpmcWorld<Borrowed<NoopLock, FixedHeapBuf<Fat>>>>($cfg, $($arg),*),
            _ => $f::<MpmcWorld<Shared<PlLock, FixedHeapBuf<Fat>, false>>>($cfg, $($arg),*),
        }
    };
}

/// borrowed channel on a growing heap buffer (allocation on push is the documented exception)
pub struct BorrowedGrowing<M>(std::marker::PhantomData<M>);
impl<M: RawMutex + 'static> MpmcApi for BorrowedGrowing<M> {
    type P = Val;
    type Root = <Borrowed<M, GrowingHeapBuf<Val>> as MpmcApi>::Root;
    type Tx = <Borrowed<M, GrowingHeapBuf<Val>> as MpmcApi>::Tx;
    type Rx = <Borrowed<M, GrowingHeapBuf<Val>> as MpmcApi>::Rx;
    type Obs = <Borrowed<M, GrowingHeapBuf<Val>> as MpmcApi>::Obs;
    type SendFut = <Borrowed<M, GrowingHeapBuf<Val>> as MpmcApi>::SendFut;
    type RecvFut = <Borrowed<M, GrowingHeapBuf<Val>> as MpmcApi>::RecvFut;
    type Strm = <Borrowed<M, GrowingHeapBuf<Val>> as MpmcApi>::Strm;
    const SHARED: bool = false;
    const GROWING: bool = true;
    fn create(cap: usize) -> (Self::Root, Self::Tx, Self::Rx, Self::Obs) {
        Borrowed::<M, GrowingHeapBuf<Val>>::create(cap)
    }
    fn clone_tx(t: &Self::Tx) -> Self::Tx {
        *t
    }
    fn clone_rx(r: &Self::Rx) -> Self::Rx {
        *r
    }
    fn send(t: &Self::Tx, v: Val) -> Self::SendFut {
        t.send(v)
    }
    fn try_send(t: &Self::Tx, v: Val) -> Result<(), TrySendError<Val>> {
        t.try_send(v)
    }
    fn close_tx(t: &Self::Tx) -> CloseStatus {
        t.close()
    }
    fn receive(r: &Self::Rx) -> Self::RecvFut {
        r.receive()
    }
    fn try_receive(r: &Self::Rx) -> Result<Val, TryReceiveError> {
        r.try_receive()
    }
    fn close_rx(r: &Self::Rx) -> CloseStatus {
        r.close()
    }
    fn stream(r: Self::Rx) -> Self::Strm {
        r.stream()
    }
    fn close_stream(_s: &Self::Strm) -> Option<CloseStatus> {
        None
    }
    fn cancel(f: Pin<&mut Self::SendFut>) -> Option<Val> {
        Borrowed::<M, GrowingHeapBuf<Val>>::cancel(f)
    }
    fn snapshot(o: &Self::Obs, is_live: IsLive<'_>) -> Snapshot {
        o.verif_snapshot(is_live)
    }
}

fn dispatch_gen(cfg: &Cfg, rng: &mut Rng, env: &mut Env) -> Vec<Op> {
    dispatch!(generic_gen_run, cfg, rng, env)
}

fn dispatch_replay(cfg: &Cfg, ops: &[Op], env: &mut Env) {
    dispatch!(generic_replay, cfg, ops, env)
}

fn shrink_cfg() -> Vec<(&'static str, Vec<i64>)> {
    vec![("observer", vec![1])]
}

fn shrink_op(op: Op) -> Vec<Op> {
    match op.k {
        OP_POLL if op.b != 0 => vec![Op { b: 0, ..op }],
        _ => vec![],
    }
}

pub static DEF: WorldDef = WorldDef {
    name: "mpmc",
    props: &["C01", "C08", "C09", "C10", "C11", "C17", "C18"],
    draw_cfg,
    gen_run: dispatch_gen,
    replay: dispatch_replay,
    op_name: |k| OP_NAMES.get(k as usize).copied().unwrap_or("?"),
    shrink_cfg,
    shrink_op,
};
