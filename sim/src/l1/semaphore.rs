//! L1 world: semaphore (borrowed and shared; NoopLock and parking_lot; fair and unfair).
//! Oracles: C05 conservation, C06 head-never-stranded, C07 fair FIFO, C01, C17, C18.

use super::oracle::{self, AllocAllow, QueueKind};
use super::{generic_gen_run, generic_replay, World, WorldDef};
use crate::core::*;
use crate::flavour::{NoopLock, PlLock};
use crate::rng::Rng;
use futures_core::future::FusedFuture;
use futures_intrusive::sync::{
    GenericSemaphore, GenericSemaphoreAcquireFuture, GenericSemaphoreReleaser, GenericSharedSemaphore,
    GenericSharedSemaphoreAcquireFuture, GenericSharedSemaphoreReleaser,
};
use futures_intrusive::verif::{IsLive, Snapshot};
use lock_api::RawMutex;
use std::future::Future;
use std::task::Poll;

pub const OP_NEW: u16 = 0;
pub const OP_POLL: u16 = 1;
pub const OP_DROP: u16 = 2;
pub const OP_TRY: u16 = 3;
pub const OP_RELEASE: u16 = 4;
pub const OP_DISARM: u16 = 5;
pub const OP_DROP_REL: u16 = 6;
pub const OP_CLONE_HANDLE: u16 = 7;
pub const OP_DROP_HANDLE: u16 = 8;
pub const OP_POLL_COMPLETED: u16 = 9;
pub const OP_DROP_PRIM: u16 = 10;
const OP_NAMES: [&str; 11] =
    ["New", "Poll", "Drop", "TryAcquire", "Release", "Disarm", "DropReleaser", "CloneHandle", "DropHandle", "PollCompleted", "DropPrim"];

const MAX_HANDLES: usize = 4;

pub trait SemApi: 'static {
    type Root;
    type Handle;
    type Fut: Future<Output = Self::Rel> + FusedFuture;
    type Rel;
    const SHARED: bool;
    fn create(fair: bool, permits: usize) -> (Self::Root, Self::Handle);
    fn clone_handle(h: &Self::Handle) -> Self::Handle;
    fn acquire(h: &Self::Handle, n: usize) -> Self::Fut;
    fn try_acquire(h: &Self::Handle, n: usize) -> Option<Self::Rel>;
    fn release(h: &Self::Handle, n: usize);
    fn permits(h: &Self::Handle) -> usize;
    fn disarm(r: &mut Self::Rel) -> usize;
    fn snapshot(h: &Self::Handle, is_live: IsLive<'_>) -> Snapshot;
}

pub struct Borrowed<M>(std::marker::PhantomData<M>);
impl<M: RawMutex + 'static> SemApi for Borrowed<M> {
    type Root = Owned<GenericSemaphore<M>>;
    type Handle = &'static GenericSemaphore<M>;
    type Fut = GenericSemaphoreAcquireFuture<'static, M>;
    type Rel = GenericSemaphoreReleaser<'static, M>;
    const SHARED: bool = false;
    fn create(fair: bool, permits: usize) -> (Self::Root, Self::Handle) {
        // the world drops every future / releaser before the root
        Owned::new(GenericSemaphore::<M>::new(fair, permits))
    }
    fn clone_handle(h: &Self::Handle) -> Self::Handle {
        *h
    }
    fn acquire(h: &Self::Handle, n: usize) -> Self::Fut {
        h.acquire(n)
    }
    fn try_acquire(h: &Self::Handle, n: usize) -> Option<Self::Rel> {
        h.try_acquire(n)
    }
    fn release(h: &Self::Handle, n: usize) {
        h.release(n)
    }
    fn permits(h: &Self::Handle) -> usize {
        h.permits()
    }
    fn disarm(r: &mut Self::Rel) -> usize {
        r.disarm()
    }
    fn snapshot(h: &Self::Handle, is_live: IsLive<'_>) -> Snapshot {
        h.verif_snapshot(is_live)
    }
}

pub struct Shared<M>(std::marker::PhantomData<M>);
impl<M: RawMutex + 'static> SemApi for Shared<M> {
    type Root = ();
    type Handle = GenericSharedSemaphore<M>;
    type Fut = GenericSharedSemaphoreAcquireFuture<M>;
    type Rel = GenericSharedSemaphoreReleaser<M>;
    const SHARED: bool = true;
    fn create(fair: bool, permits: usize) -> (Self::Root, Self::Handle) {
        ((), GenericSharedSemaphore::<M>::new(fair, permits))
    }
    fn clone_handle(h: &Self::Handle) -> Self::Handle {
        h.clone()
    }
    fn acquire(h: &Self::Handle, n: usize) -> Self::Fut {
        h.acquire(n)
    }
    fn try_acquire(h: &Self::Handle, n: usize) -> Option<Self::Rel> {
        h.try_acquire(n)
    }
    fn release(h: &Self::Handle, n: usize) {
        h.release(n)
    }
    fn permits(h: &Self::Handle) -> usize {
        h.permits()
    }
    fn disarm(r: &mut Self::Rel) -> usize {
        r.disarm()
    }
    fn snapshot(h: &Self::Handle, is_live: IsLive<'_>) -> Snapshot {
        h.verif_snapshot(is_live)
    }
}

pub struct SemWorld<A: SemApi> {
    // declaration order = drop order: futures and releasers before handles before the root
    futs: Arena<A::Fut>,
    rels: Vec<Option<A::Rel>>,
    handles: Vec<Option<A::Handle>>,
    observer: Option<A::Handle>,
    root: Option<A::Root>,
    prim_alive: bool,
    // model
    fair: bool,
    permits: usize,
    req: [usize; MAX_IDS],
    rel_amount: [Option<usize>; MAX_IDS],
    used: [bool; MAX_IDS],
    rel_ids: Vec<usize>,
    // generation parameters
    k: usize,
    max_n: usize,
    scale: usize,
    huge: bool,
    initial: usize,
    realism: u64,
    weights: [u32; 10],
    next_id: usize,
}

impl<A: SemApi> SemWorld<A> {
    fn handle(&self) -> Option<&A::Handle> {
        self.handles.iter().flatten().next()
    }
    fn any_handle(&self) -> Option<&A::Handle> {
        self.handle().or(self.observer.as_ref())
    }
    fn owners(&self, env: &Env) -> usize {
        let h = self.handles.iter().flatten().count() + self.observer.is_some() as usize;
        let f = env.live.iter().filter(|id| matches!(env.slots[**id].st, St::Fresh | St::Pending)).count();
        let r = self.rel_ids.len();
        h + f + r
    }

    /// all oracles that are evaluated at every quiescent point
    fn check(&mut self, env: &mut Env, op: Op, owners_before: usize) {
        env.collect_wakes();
        if env.has_fatal() {
            return;
        }
        // C18
        let owners_after = self.owners(env);
        let last_owner_gone = A::SHARED && owners_before > 0 && owners_after == 0;
        let allow = AllocAllow { allocs: false, deallocs: last_owner_gone || op.k == OP_DROP_PRIM };
        oracle::c18_alloc(env, allow, OP_NAMES[op.k as usize]);
        // C17
        for i in 0..env.live.len() {
            let id = env.live[i];
            let t = self.futs.get(id).is_terminated();
            oracle::c17_terminated(env, id, t);
        }
        if !self.prim_alive {
            return;
        }
        let h = match self.any_handle() {
            Some(h) => h,
            None => return,
        };
        // C05: conservation
        let p = A::permits(h);
        if p != self.permits {
            env.fail("C05", "permits-ledger", format!("permits() = {} but the ledger says {}", p, self.permits), true);
            return;
        }
        // C01: snapshot
        let futs = &self.futs;
        let snap = A::snapshot(h, &mut |addr| futs.find(addr).is_some());
        let resolve = |addr: usize| futs.find(addr).map(|id| (id, 0u8));
        let orders = oracle::c01_membership(env, &snap, &resolve, &[QueueKind { name: "waiters", kinds: &[0] }]);
        if env.has_fatal() {
            return;
        }
        if snap.scalar("permits") != Some(self.permits as u64) {
            env.fail("C05", "permits-ledger", "snapshot permits differ from the ledger".into(), true);
        }
        // C06: the longest-waiting acquirer is never stranded
        let pend = env.pending_sorted(0);
        if !pend.is_empty() && pend.iter().all(|id| !env.slots[*id].uw()) {
            let head = pend[0];
            if self.req[head] <= self.permits {
                let trigger = OP_NAMES[op.k as usize];
                env.fail(
                    "C06",
                    "head-fits-no-wake",
                    format!(
                        "after {}: {} acquire future(s) pending, none holds an unconsumed wake-up, yet the longest-waiting request #{} for {} permit(s) fits into the {} available",
                        trigger, pend.len(), head, self.req[head], self.permits
                    ),
                    false,
                );
            }
        }
        let model = [self.permits as u64, self.fair as u64];
        let sh = oracle::state_hash(env, Some(&snap), &orders, &model);
        env.push_state(sh, op.k);
    }
}

impl<A: SemApi> SemWorld<A> {
    /// op.b → number of permits: units of `scale`, or (top bit set, `huge` runs) the initial
    /// total minus a few units, i.e. a request close to `usize::MAX`
    fn amount(&self, b: u32) -> usize {
        if b & 0x8000_0000 != 0 {
            self.initial.saturating_sub((b & 0xff) as usize)
        } else {
            b as usize * self.scale
        }
    }
}

impl<A: SemApi> World for SemWorld<A> {
    fn new(cfg: &Cfg, _env: &mut Env) -> Self {
        let fair = cfg_get(cfg, "fair", 0) != 0;
        // every quantity is a multiple of `scale` (byte-budget style semaphores: > 2^32 per request)
        let scale = cfg_get(cfg, "scale", 1).max(1) as usize;
        // `huge`: the total is within a few units of usize::MAX (the counter never overflows: this
        // mode has no plain release(), permits only come back through releasers)
        let huge = cfg!(target_pointer_width = "64") && cfg_get(cfg, "huge", 0) != 0;
        let scale = if huge { 1 } else { scale };
        let permits = if huge { usize::MAX - cfg_get(cfg, "permits", 1) as usize } else { cfg_get(cfg, "permits", 1) as usize * scale };
        let (root, h) = A::create(fair, permits);
        let observer = if A::SHARED && cfg_get(cfg, "observer", 1) != 0 { Some(A::clone_handle(&h)) } else { None };
        let mut handles: Vec<Option<A::Handle>> = (0..MAX_HANDLES).map(|_| None).collect();
        handles[0] = Some(h);
        let mut weights = [0u32; 10];
        const WK: [&str; 10] = ["w0", "w1", "w2", "w3", "w4", "w5", "w6", "w7", "w8", "w9"];
        for (i, w) in weights.iter_mut().enumerate() {
            *w = cfg_get(cfg, WK[i], 10) as u32;
        }
        SemWorld {
            futs: Arena::new(),
            rels: (0..MAX_IDS).map(|_| None).collect(),
            handles,
            observer,
            root: Some(root),
            prim_alive: true,
            fair,
            permits,
            req: [0; MAX_IDS],
            rel_amount: [None; MAX_IDS],
            used: [false; MAX_IDS],
            rel_ids: Vec::with_capacity(MAX_IDS),
            k: cfg_get(cfg, "k", 3) as usize,
            max_n: cfg_get(cfg, "max_n", 3) as usize,
            scale,
            huge,
            initial: permits,
            realism: cfg_get(cfg, "realism", 50) as u64,
            weights,
            next_id: 0,
        }
    }

    fn gen(&mut self, rng: &mut Rng, env: &Env, teardown: bool) -> Option<Op> {
        let live: Vec<usize> = env.live.clone();
        let rels: &Vec<usize> = &self.rel_ids;
        let hs: Vec<usize> = (0..MAX_HANDLES).filter(|i| self.handles[*i].is_some()).collect();
        if teardown {
            let mut cands: Vec<Op> = Vec::new();
            for id in &live {
                cands.push(Op::new(OP_DROP, *id as u32, 0, 0));
            }
            for id in rels {
                cands.push(Op::new(OP_DROP_REL, *id as u32, 0, 0));
            }
            if A::SHARED {
                for h in &hs {
                    cands.push(Op::new(OP_DROP_HANDLE, *h as u32, 0, 0));
                }
            }
            if cands.is_empty() {
                if self.prim_alive && !A::SHARED {
                    return Some(Op::new(OP_DROP_PRIM, 0, 0, 0));
                }
                return None;
            }
            return Some(*rng.pick(&cands));
        }
        let pollable: Vec<usize> = live.iter().copied().filter(|id| matches!(env.slots[*id].st, St::Fresh | St::Pending)).collect();
        let done: Vec<usize> = live.iter().copied().filter(|id| env.slots[*id].st == St::Done).collect();
        let can_new = pollable.len() < self.k && self.next_id < MAX_IDS - 1 && !hs.is_empty();
        let mut w = self.weights;
        if !can_new {
            w[0] = 0;
        }
        if pollable.is_empty() {
            w[1] = 0;
        }
        if live.is_empty() {
            w[2] = 0;
        }
        if self.next_id >= MAX_IDS - 1 || hs.is_empty() {
            w[3] = 0;
        }
        if hs.is_empty() || self.huge {
            w[4] = 0;
        }
        if rels.is_empty() {
            w[5] = 0;
            w[6] = 0;
        }
        if !A::SHARED {
            w[7] = 0;
            w[8] = 0;
        } else {
            if hs.is_empty() || hs.len() >= MAX_HANDLES {
                w[7] = 0;
            }
            if hs.is_empty() {
                w[8] = 0;
            }
        }
        if done.is_empty() {
            w[9] = 0;
        }
        if w.iter().all(|x| *x == 0) {
            return None;
        }
        let kind = rng.weighted(&w) as u16;
        Some(match kind {
            OP_NEW => {
                let id = self.next_id;
                self.next_id += 1;
                let b = if self.huge && rng.pct(35) { 0x8000_0000 | rng.below(4) as u32 } else { rng.below(self.max_n as u64 + 1) as u32 };
                Op::new(OP_NEW, id as u32, b, 0)
            }
            OP_POLL => {
                let woken: Vec<usize> = pollable.iter().copied().filter(|id| env.slots[*id].uw() || env.slots[*id].st == St::Fresh).collect();
                let id = if !woken.is_empty() && rng.pct(self.realism) { *rng.pick(&woken) } else { *rng.pick(&pollable) };
                // mostly keep the waker, sometimes swap
                let v = if rng.pct(25) { rng.below(2) as u32 } else { env.slots[id].last_variant as u32 };
                Op::new(OP_POLL, id as u32, v, 0)
            }
            OP_DROP => {
                // bias towards pending / woken futures
                let pend: Vec<usize> = live.iter().copied().filter(|id| env.slots[*id].st == St::Pending).collect();
                let id = if !pend.is_empty() && rng.pct(70) { *rng.pick(&pend) } else { *rng.pick(&live) };
                Op::new(OP_DROP, id as u32, 0, 0)
            }
            OP_TRY => {
                let id = self.next_id;
                self.next_id += 1;
                let b = if self.huge && rng.pct(25) { 0x8000_0000 | rng.below(4) as u32 } else { rng.below(self.max_n as u64 + 1) as u32 };
                Op::new(OP_TRY, id as u32, b, 0)
            }
            OP_RELEASE => Op::new(OP_RELEASE, 0, rng.below(self.max_n as u64 + 1) as u32, 0),
            OP_DISARM => Op::new(OP_DISARM, *rng.pick(rels) as u32, 0, 0),
            OP_DROP_REL => Op::new(OP_DROP_REL, *rng.pick(rels) as u32, 0, 0),
            OP_CLONE_HANDLE => {
                let free = (0..MAX_HANDLES).find(|i| self.handles[*i].is_none()).unwrap();
                Op::new(OP_CLONE_HANDLE, free as u32, 0, 0)
            }
            OP_DROP_HANDLE => Op::new(OP_DROP_HANDLE, *rng.pick(&hs) as u32, 0, 0),
            _ => Op::new(OP_POLL_COMPLETED, *rng.pick(&done) as u32, 0, 0),
        })
    }

    fn exec(&mut self, op: Op, env: &mut Env) {
        let id = op.a as usize % MAX_IDS;
        let owners_before = self.owners(env);
        match op.k {
            OP_NEW => {
                if self.prim_alive && !self.used[id] {
                    if let Some(h) = self.handles.iter().flatten().next() {
                        let n = self.amount(op.b);
                        if let Some(f) = env.call("acquire", || A::acquire(h, n)) {
                            self.used[id] = true;
                            self.futs.put(id, f);
                            self.req[id] = n;
                            env.slot_create(id, 0, n as u64);
                            if env.any_pending(0, id) {
                                env.fault("barge");
                            }
                        }
                    }
                }
            }
            OP_POLL => {
                if let Some(out) = super::common::poll_fut(env, &mut self.futs, id, (op.b & 1) as u8) {
                    let (was_fresh, had_uw) = (out.was_fresh, out.had_uw);
                    match out.res {
                        None => {}
                        Some(Poll::Ready(rel)) => {
                            let n = self.req[id];
                            // C07 before the model is updated
                            if self.fair && n > 0 {
                                let ws = env.slots[id].wait_start;
                                if let Some(earlier) = env.live.iter().copied().find(|o| *o != id && env.slots[*o].st == St::Pending && (was_fresh || env.slots[*o].wait_start < ws)) {
                                    env.fail("C07", "overtaken", format!("fair semaphore: request #{} for {} permit(s) completed although request #{} started waiting earlier and is still pending", id, n, earlier), false);
                                }
                            }
                            env.end_poll(id, true);
                            if n > self.permits {
                                env.fail("C05", "over-grant", format!("acquire({}) completed with only {} permit(s) available", n, self.permits), true);
                            } else {
                                self.permits -= n;
                            }
                            self.rels[id] = Some(rel);
                            self.rel_ids.push(id);
                            self.rel_amount[id] = Some(n);
                            if !was_fresh && !had_uw {
                                env.probe("unfair_waiting_fastpath_acquire");
                            }
                        }
                        Some(Poll::Pending) => {
                            env.end_poll(id, false);
                            if self.req[id] == 0 {
                                env.fail("C07", "zero-request-waits", format!("acquire(0) #{} did not complete immediately", id), false);
                            }
                            if !was_fresh && had_uw && !self.fair {
                                // went back to waiting: start of a new wait (C06 quantifier text)
                                env.slots[id].wait_start = env.slots[id].last_poll_seq;
                                env.probe("requeue_after_stolen_permits");
                                env.fault("woken_requeued");
                            }
                        }
                    }
                }
            }
            OP_DROP => {
                super::common::drop_fut(env, &mut self.futs, id);
            }
            OP_TRY => {
                if self.prim_alive && !self.used[id] {
                    if let Some(h) = self.handles.iter().flatten().next() {
                        let n = self.amount(op.b);
                        let any_pending = env.any_pending(0, usize::MAX);
                        if any_pending {
                            env.fault("barge");
                        }
                        if let Some(r) = env.call("try_acquire", || A::try_acquire(h, n)) {
                            self.used[id] = true;
                            env.log.add(r.is_some() as u64);
                            match r {
                                Some(rel) => {
                                    if self.fair && n > 0 && any_pending {
                                        env.fail("C07", "overtaken", format!("fair semaphore: try_acquire({}) succeeded while earlier requests are still pending", n), false);
                                    }
                                    if n > self.permits {
                                        env.fail("C05", "over-grant", format!("try_acquire({}) succeeded with only {} permit(s) available", n, self.permits), true);
                                    } else {
                                        self.permits -= n;
                                    }
                                    self.rels[id] = Some(rel);
                                    self.rel_ids.push(id);
                                    self.rel_amount[id] = Some(n);
                                }
                                None => {
                                    if n == 0 {
                                        env.fail("C07", "zero-request-waits", "try_acquire(0) failed".into(), false);
                                    }
                                }
                            }
                        }
                    }
                }
            }
            OP_RELEASE => {
                if self.prim_alive {
                    if let Some(h) = self.handle() {
                        let n = self.amount(op.b);
                        if env.call("release", || A::release(h, n)).is_some() {
                            self.permits += n;
                        }
                    }
                }
            }
            OP_DISARM => {
                if let Some(rel) = self.rels[id].as_mut() {
                    if let Some(got) = env.call("disarm", || A::disarm(rel)) {
                        let want = self.rel_amount[id].unwrap_or(0);
                        if got != want {
                            env.fail("C05", "disarm-amount", format!("disarm() returned {} for a releaser holding {}", got, want), true);
                        }
                        self.rel_amount[id] = Some(0);
                        env.fault("disarm");
                    }
                }
            }
            OP_DROP_REL => {
                if let Some(rel) = self.rels[id].take() {
                    self.rel_ids.retain(|x| *x != id);
                    let amt = self.rel_amount[id].take().unwrap_or(0);
                    if env.call("drop releaser", || drop(rel)).is_some() {
                        self.permits += amt;
                    }
                }
            }
            OP_CLONE_HANDLE => {
                let dst = op.a as usize % MAX_HANDLES;
                if A::SHARED && self.handles[dst].is_none() {
                    let c = match self.handles.iter().flatten().next() {
                        Some(h) => env.call("clone handle", || A::clone_handle(h)),
                        None => None,
                    };
                    if c.is_some() {
                        self.handles[dst] = c;
                    }
                }
            }
            OP_DROP_HANDLE => {
                let idx = op.a as usize % MAX_HANDLES;
                if A::SHARED {
                    if let Some(h) = self.handles[idx].take() {
                        if env.any_pending(0, usize::MAX) {
                            env.fault("handle_drop_with_pending_future");
                        }
                        env.call("drop handle", || drop(h));
                    }
                }
            }
            OP_POLL_COMPLETED => {
                super::common::poll_completed(env, &mut self.futs, id);
            }
            OP_DROP_PRIM => {
                if !A::SHARED && self.prim_alive && env.live.is_empty() && self.rel_ids.is_empty() {
                    self.handles[0] = None;
                    let root = self.root.take();
                    env.call("drop semaphore", || drop(root));
                    self.prim_alive = false;
                }
            }
            _ => {}
        }
        self.check(env, op, owners_before);
    }

    fn finish(&mut self, env: &mut Env) {
        use super::common::run_finish_op;
        for id in env.live.clone() {
            run_finish_op(self, Op::new(OP_DROP, id as u32, 0, 0), env);
        }
        for id in self.rel_ids.clone() {
            run_finish_op(self, Op::new(OP_DROP_REL, id as u32, 0, 0), env);
        }
        if A::SHARED {
            for h in 0..MAX_HANDLES {
                if self.handles[h].is_some() {
                    run_finish_op(self, Op::new(OP_DROP_HANDLE, h as u32, 0, 0), env);
                }
            }
        } else if self.prim_alive {
            run_finish_op(self, Op::new(OP_DROP_PRIM, 0, 0, 0), env);
        }
    }
}

fn draw_cfg(rng: &mut Rng) -> Cfg {
    let mut c = Cfg::new();
    c.insert("flavour".into(), rng.below(4) as i64);
    c.insert("fair".into(), rng.below(2) as i64);
    // mostly tiny totals (every permit matters), sometimes larger ones with larger requests
    let permits = if rng.pct(85) { rng.below(4) as i64 } else { *rng.pick(&[5i64, 8, 64]) };
    c.insert("permits".into(), permits);
    let max_n = if rng.pct(85) { rng.range(1, 3) } else { *rng.pick(&[4i64, 6, 9]) };
    c.insert("max_n".into(), max_n);
    let scale = if cfg!(target_pointer_width = "64") && rng.pct(12) { *rng.pick(&[1i64 << 32, (1i64 << 32) + 1, 1i64 << 48]) } else { 1 };
    c.insert("scale".into(), scale);
    c.insert("huge".into(), (cfg!(target_pointer_width = "64") && rng.pct(6)) as i64);
    // live futures: mostly few (small joint states recur), sometimes many (batch loops, deep heaps / queues)
    let k = if rng.pct(88) { rng.range(1, 6) } else { *rng.pick(&[8i64, 12]) };
    c.insert("k".into(), k);
    c.insert("len".into(), rng.range(8, 96));
    c.insert("realism".into(), *rng.pick(&[10, 50, 90]));
    c.insert("observer".into(), rng.pct(70) as i64);
    // operation weights: a random subset is suppressed or boosted per run (swarm)
    let base = [140u32, 300, 100, 60, 100, 30, 100, 30, 30, 2];
    for (i, b) in base.iter().enumerate() {
        let f = *rng.pick(&[0u32, 1, 1, 1, 2, 3]);
        c.insert(format!("w{}", i), (*b * f) as i64);
    }
    // never suppress New and Poll together with everything else
    c.insert("w0".into(), cfg_get(&c, "w0", 140).max(70));
    c.insert("w1".into(), cfg_get(&c, "w1", 300).max(150));
    c
}

fn dispatch_gen(cfg: &Cfg, rng: &mut Rng, env: &mut Env) -> Vec<Op> {
    match cfg_get(cfg, "flavour", 0) {
        0 => generic_gen_run::<SemWorld<Borrowed<NoopLock>>>(cfg, rng, env),
        1 => generic_gen_run::<SemWorld<Borrowed<PlLock>>>(cfg, rng, env),
        2 => generic_gen_run::<SemWorld<Shared<PlLock>>>(cfg, rng, env),
        _ => generic_gen_run::<SemWorld<Shared<NoopLock>>>(cfg, rng, env),
    }
}

fn dispatch_replay(cfg: &Cfg, ops: &[Op], env: &mut Env) {
    match cfg_get(cfg, "flavour", 0) {
        0 => generic_replay::<SemWorld<Borrowed<NoopLock>>>(cfg, ops, env),
        1 => generic_replay::<SemWorld<Borrowed<PlLock>>>(cfg, ops, env),
        2 => generic_replay::<SemWorld<Shared<PlLock>>>(cfg, ops, env),
        _ => generic_replay::<SemWorld<Shared<NoopLock>>>(cfg, ops, env),
    }
}

fn shrink_cfg() -> Vec<(&'static str, Vec<i64>)> {
    vec![("flavour", vec![0, 1, 2]), ("permits", vec![0, 1, 2]), ("observer", vec![1]), ("scale", vec![1])]
}

fn shrink_op(op: Op) -> Vec<Op> {
    let mut v = Vec::new();
    match op.k {
        OP_POLL if op.b != 0 => v.push(Op { b: 0, ..op }),
        OP_NEW | OP_TRY | OP_RELEASE => {
            if op.b & 0x8000_0000 != 0 {
                for n in 0..(op.b & 0xff) {
                    v.push(Op { b: 0x8000_0000 | n, ..op });
                }
            } else {
                for n in 0..op.b.min(16) {
                    v.push(Op { b: n, ..op });
                }
            }
        }
        _ => {}
    }
    v
}

pub static DEF: WorldDef = WorldDef {
    name: "semaphore",
    props: &["C01", "C05", "C06", "C07", "C17", "C18"],
    draw_cfg,
    gen_run: dispatch_gen,
    replay: dispatch_replay,
    op_name: |k| OP_NAMES.get(k as usize).copied().unwrap_or("?"),
    shrink_cfg,
    shrink_op,
};
