//! Drop- and clone-counting channel payload. No allocation; per-thread registry.

use std::cell::RefCell;

pub const MAX_TAGS: usize = 512;

pub struct ValReg {
    /// drops that happened inside a library call (allocator armed)
    pub lib_drops: [u16; MAX_TAGS],
    /// drops performed by the harness itself
    pub own_drops: [u16; MAX_TAGS],
    pub clones: [u16; MAX_TAGS],
    /// tags dropped inside library calls since the last drain
    pub recent: [u16; 256],
    pub nrecent: usize,
    pub overflow: bool,
}

thread_local! {
    static REG: RefCell<ValReg> = const { RefCell::new(ValReg {
        lib_drops: [0; MAX_TAGS], own_drops: [0; MAX_TAGS], clones: [0; MAX_TAGS], recent: [0; 256], nrecent: 0, overflow: false }) };
    static IN_LIB: std::cell::Cell<bool> = const { std::cell::Cell::new(false) };
}

#[derive(Debug, PartialEq, Eq)]
pub struct Val {
    pub tag: u32,
}

impl Val {
    pub fn new(tag: u32) -> Val {
        Val { tag }
    }
}

impl Clone for Val {
    fn clone(&self) -> Val {
        REG.with(|r| {
            let mut r = r.borrow_mut();
            let t = self.tag as usize % MAX_TAGS;
            r.clones[t] += 1;
        });
        Val { tag: self.tag }
    }
}

impl Drop for Val {
    fn drop(&mut self) {
        let in_lib = IN_LIB.with(|f| f.get());
        REG.with(|r| {
            let mut r = r.borrow_mut();
            let t = self.tag as usize % MAX_TAGS;
            if in_lib {
                r.lib_drops[t] += 1;
                if r.nrecent < 256 {
                    let n = r.nrecent;
                    r.recent[n] = t as u16;
                    r.nrecent += 1;
                } else {
                    r.overflow = true;
                }
            } else {
                r.own_drops[t] += 1;
            }
        });
    }
}

pub fn in_lib() -> bool {
    IN_LIB.with(|f| f.get())
}

pub fn set_in_lib(v: bool) {
    IN_LIB.with(|f| f.set(v));
}

pub fn reset() {
    REG.with(|r| {
        let mut r = r.borrow_mut();
        r.lib_drops = [0; MAX_TAGS];
        r.own_drops = [0; MAX_TAGS];
        r.clones = [0; MAX_TAGS];
        r.nrecent = 0;
        r.overflow = false;
    });
}

/// tags dropped inside library calls since the last drain (sorted)
pub fn drain_recent() -> Vec<u32> {
    REG.with(|r| {
        let mut r = r.borrow_mut();
        let mut v: Vec<u32> = r.recent[..r.nrecent].iter().map(|x| *x as u32).collect();
        r.nrecent = 0;
        v.sort_unstable();
        v
    })
}

/// (lib drops, harness drops, clones) of one tag
pub fn counts(tag: u32) -> (u16, u16, u16) {
    REG.with(|r| {
        let r = r.borrow();
        let t = tag as usize % MAX_TAGS;
        (r.lib_drops[t], r.own_drops[t], r.clones[t])
    })
}

/// What the mpmc world needs from a channel payload type.
pub trait Payload: 'static {
    /// zero-sized: values carry no identity, only their number (and drops) can be checked
    const ZST: bool;
    fn make(tag: u32) -> Self;
    fn tag(&self) -> Option<u32>;
}

impl Payload for Val {
    const ZST: bool = false;
    fn make(tag: u32) -> Val {
        Val::new(tag)
    }
    fn tag(&self) -> Option<u32> {
        Some(self.tag)
    }
}

/// A zero-sized payload with a destructor (tick / token channels; `VecDeque<ZST>` reports
/// capacity `usize::MAX`, `MaybeUninit<[ZST; N]>` occupies no memory). Drops inside library
/// calls are recorded under tag 0: only their number is meaningful.
#[derive(Debug, PartialEq, Eq)]
pub struct Zst;

impl Drop for Zst {
    fn drop(&mut self) {
        let in_lib = IN_LIB.with(|f| f.get());
        REG.with(|r| {
            let mut r = r.borrow_mut();
            if in_lib {
                r.lib_drops[0] += 1;
                if r.nrecent < 256 {
                    let n = r.nrecent;
                    r.recent[n] = 0;
                    r.nrecent += 1;
                } else {
                    r.overflow = true;
                }
            } else {
                r.own_drops[0] += 1;
            }
        });
    }
}

impl Payload for Zst {
    const ZST: bool = true;
    fn make(_tag: u32) -> Zst {
        Zst
    }
    fn tag(&self) -> Option<u32> {
        None
    }
}

/// A payload of 8 KiB: buffers whose reservation is bounded in *bytes* behave differently for
/// it than for the 4-byte `Val` (a 17-slot buffer is 136 KiB).
pub struct Fat {
    pub tag: u32,
    _pad: [u8; 8188],
}

impl Drop for Fat {
    fn drop(&mut self) {
        // same bookkeeping as Val
        drop(Val { tag: self.tag });
    }
}

impl Payload for Fat {
    const ZST: bool = false;
    fn make(tag: u32) -> Fat {
        Fat { tag, _pad: [0; 8188] }
    }
    fn tag(&self) -> Option<u32> {
        Some(self.tag)
    }
}
