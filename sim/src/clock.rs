//! The clock seam: `futures_intrusive::timer::Clock` implemented by a simulator-owned
//! counter. Timer services need a `&'static dyn Clock`, so clocks live in a static pool
//! and each worker thread claims one.

use futures_intrusive::timer::{Clock, MockClock};
use std::cell::Cell;
use std::sync::atomic::{AtomicU64, AtomicUsize, Ordering};

pub struct SimClock {
    now: AtomicU64,
}
impl SimClock {
    pub const fn new() -> SimClock {
        SimClock { now: AtomicU64::new(0) }
    }
    pub fn set(&self, t: u64) {
        self.now.store(t, Ordering::SeqCst)
    }
    pub fn get(&self) -> u64 {
        self.now.load(Ordering::SeqCst)
    }
}
impl Clock for SimClock {
    fn now(&self) -> u64 {
        self.now.load(Ordering::SeqCst)
    }
}

const POOL: usize = 8192;
#[allow(clippy::declare_interior_mutable_const)]
const SC: SimClock = SimClock::new();
#[allow(clippy::declare_interior_mutable_const)]
const MC: MockClock = MockClock::new();
static SIM_CLOCKS: [SimClock; POOL] = [SC; POOL];
static MOCK_CLOCKS: [MockClock; POOL] = [MC; POOL];
static NEXT: AtomicUsize = AtomicUsize::new(0);
thread_local! {
    static MINE: Cell<usize> = const { Cell::new(usize::MAX) };
}

fn my_index() -> usize {
    MINE.with(|m| {
        if m.get() == usize::MAX {
            let i = NEXT.fetch_add(1, Ordering::SeqCst);
            assert!(i < POOL, "clock pool exhausted");
            m.set(i);
        }
        m.get()
    })
}

/// A clock handle of the current worker thread: either the simulator's own `SimClock`
/// or the crate's `MockClock` (so that clock.rs runs real code in one configuration).
#[derive(Clone, Copy)]
pub enum ClockRef {
    Sim(&'static SimClock),
    Mock(&'static MockClock),
}
impl ClockRef {
    pub fn claim(mock: bool) -> ClockRef {
        let i = my_index();
        if mock {
            MOCK_CLOCKS[i].set_time(0);
            ClockRef::Mock(&MOCK_CLOCKS[i])
        } else {
            SIM_CLOCKS[i].set(0);
            ClockRef::Sim(&SIM_CLOCKS[i])
        }
    }
    pub fn as_dyn(&self) -> &'static dyn Clock {
        match self {
            ClockRef::Sim(c) => *c,
            ClockRef::Mock(c) => *c,
        }
    }
    pub fn set(&self, t: u64) {
        match self {
            ClockRef::Sim(c) => c.set(t),
            ClockRef::Mock(c) => c.set_time(t),
        }
    }
    pub fn now(&self) -> u64 {
        self.as_dyn().now()
    }
}
