//! L2 — task simulator: a single-threaded executor with a seeded run queue, virtual time
//! (the crate's own TimerService over a SimClock is the timer wheel), delayed and spurious
//! wake-ups, task kills at arbitrary await points. Tasks are ordinary `async` code using the
//! library the way applications do. Oracles: assertions inside the scenarios (RAII ledgers),
//! checks over the recorded history, and bounded liveness once faults stop (a lost wake-up
//! is a deadlock).

use crate::clock::ClockRef;
use crate::core::{Cfg, Fail, Stats};
use crate::rng::{Hasher64, Rng};
use std::cell::RefCell;
use std::future::Future;
use std::pin::Pin;
use std::rc::Rc;
use std::sync::Arc;
use std::task::{Context, Poll, Wake, Waker};

pub mod scen;

// ---------------------------------------------------------------- choice tape

/// Every decision of a run (which task runs, which fault fires, scripted amounts) is one
/// `choose(n)`. Generate mode draws from the run PRNG and records; replay mode follows a
/// recorded tape and tolerates edits (out-of-range values are reduced, a short tape
/// continues with 0) — that tolerance is what lets the minimiser edit tapes.
pub struct Chooser {
    rng: Option<Rng>,
    pub tape: Vec<u32>,
    pos: usize,
    /// write-ahead log of the choices (crash isolation mode)
    pub log: Option<std::fs::File>,
}

impl Chooser {
    pub fn generate(rng: Rng) -> Chooser {
        Chooser { rng: Some(rng), tape: Vec::new(), pos: 0, log: None }
    }
    pub fn replay(tape: Vec<u32>) -> Chooser {
        Chooser { rng: None, tape, pos: 0, log: None }
    }
    pub fn choose(&mut self, n: usize) -> usize {
        if n <= 1 {
            return 0;
        }
        match &mut self.rng {
            Some(r) => {
                let v = r.below(n as u64) as u32;
                self.tape.push(v);
                if let Some(f) = &mut self.log {
                    use std::io::Write;
                    let _ = writeln!(f, "{}", v);
                }
                v as usize
            }
            None => {
                let v = self.tape.get(self.pos).copied().unwrap_or(0) as usize % n;
                self.pos += 1;
                v
            }
        }
    }
    pub fn pct(&mut self, p: usize) -> bool {
        self.choose(100) < p
    }
    pub fn used(&self) -> usize {
        if self.rng.is_some() {
            self.tape.len()
        } else {
            self.pos
        }
    }
}

// ---------------------------------------------------------------- wake-ups

thread_local! {
    static WOKEN: RefCell<Vec<usize>> = const { RefCell::new(Vec::new()) };
}

struct TaskWaker(usize);
impl Wake for TaskWaker {
    fn wake(self: Arc<Self>) {
        self.wake_by_ref()
    }
    fn wake_by_ref(self: &Arc<Self>) {
        WOKEN.with(|w| w.borrow_mut().push(self.0));
    }
}

fn drain_woken() -> Vec<usize> {
    WOKEN.with(|w| std::mem::take(&mut *w.borrow_mut()))
}

// ---------------------------------------------------------------- shared report

/// What scenario code and the executor write into. Scenario bookkeeping that must survive a
/// task kill is tied to RAII guards which write here in their `Drop`.
#[derive(Default)]
pub struct Report {
    pub fails: Vec<Fail>,
    pub step: u64,
    pub log: Hasher64,
    pub stats: Stats,
    pub history: Vec<(u64, u32, u32, u64)>,
}

impl Report {
    pub fn fail(&mut self, prop: &str, oracle: &str, msg: String) {
        self.fails.push(Fail { prop: prop.into(), oracle: oracle.into(), msg, at_op: self.step as usize, fatal: true });
    }
    pub fn fault(&mut self, kind: &'static str) {
        *self.stats.faults.entry(kind).or_insert(0) += 1;
    }
    pub fn probe(&mut self, name: &'static str) {
        *self.stats.probes.entry(name).or_insert(0) += 1;
    }
    /// history event: (step, kind, who, value)
    pub fn event(&mut self, kind: u32, who: u32, value: u64) {
        let s = self.step;
        self.history.push((s, kind, who, value));
        self.log.add(kind as u64 | (who as u64) << 16);
        self.log.add(value);
    }
}

pub type Rep = Rc<RefCell<Report>>;

// ---------------------------------------------------------------- small async helpers

/// Returns Pending once (after waking itself): an await point where other tasks can run.
pub struct YieldNow(bool);
pub fn yield_now() -> YieldNow {
    YieldNow(false)
}
impl Future for YieldNow {
    type Output = ();
    fn poll(mut self: Pin<&mut Self>, cx: &mut Context<'_>) -> Poll<()> {
        if self.0 {
            Poll::Ready(())
        } else {
            self.0 = true;
            cx.waker().wake_by_ref();
            Poll::Pending
        }
    }
}

/// `select`-style timeout: polls `fut` first, then the timer. Whichever loses is dropped
/// (= cancelled) together with this adaptor.
pub struct Timeout<F, T> {
    fut: F,
    timer: T,
}
pub fn timeout<F: Future, T: Future<Output = ()>>(fut: F, timer: T) -> Timeout<F, T> {
    Timeout { fut, timer }
}
impl<F: Future, T: Future<Output = ()>> Future for Timeout<F, T> {
    type Output = Result<F::Output, ()>;
    fn poll(self: Pin<&mut Self>, cx: &mut Context<'_>) -> Poll<Self::Output> {
        // Safety: structural pinning of both fields; neither is moved out
        let this = unsafe { self.get_unchecked_mut() };
        let fut = unsafe { Pin::new_unchecked(&mut this.fut) };
        if let Poll::Ready(v) = fut.poll(cx) {
            return Poll::Ready(Ok(v));
        }
        let timer = unsafe { Pin::new_unchecked(&mut this.timer) };
        if let Poll::Ready(()) = timer.poll(cx) {
            return Poll::Ready(Err(()));
        }
        Poll::Pending
    }
}

/// Wraps a library future and records its poll results in the report's history, so that
/// arrival (first Pending) and grant order can be checked afterwards.
pub struct Observed<F> {
    inner: F,
    rep: Rep,
    who: u32,
    kind_base: u32,
    seen_pending: bool,
    done: bool,
}
pub const EV_ARRIVE: u32 = 0;
pub const EV_GRANT: u32 = 1;
pub const EV_ABANDON: u32 = 2;
pub fn observed<F: Future>(inner: F, rep: &Rep, who: u32, kind_base: u32) -> Observed<F> {
    Observed { inner, rep: rep.clone(), who, kind_base, seen_pending: false, done: false }
}
impl<F: Future> Future for Observed<F> {
    type Output = F::Output;
    fn poll(self: Pin<&mut Self>, cx: &mut Context<'_>) -> Poll<F::Output> {
        let this = unsafe { self.get_unchecked_mut() };
        let inner = unsafe { Pin::new_unchecked(&mut this.inner) };
        match inner.poll(cx) {
            Poll::Ready(v) => {
                this.done = true;
                this.rep.borrow_mut().event(this.kind_base + EV_GRANT, this.who, this.seen_pending as u64);
                Poll::Ready(v)
            }
            Poll::Pending => {
                if !this.seen_pending {
                    this.seen_pending = true;
                    this.rep.borrow_mut().event(this.kind_base + EV_ARRIVE, this.who, 0);
                }
                Poll::Pending
            }
        }
    }
}
impl<F> Drop for Observed<F> {
    fn drop(&mut self) {
        if self.seen_pending && !self.done {
            self.rep.borrow_mut().event(self.kind_base + EV_ABANDON, self.who, 0);
        }
    }
}

// ---------------------------------------------------------------- executor

pub trait TimerDriver {
    fn next_expiration(&self) -> Option<u64>;
    fn check_expirations(&self);
}
impl<M: lock_api::RawMutex> TimerDriver for futures_intrusive::timer::GenericTimerService<M> {
    fn next_expiration(&self) -> Option<u64> {
        futures_intrusive::timer::GenericTimerService::next_expiration(self)
    }
    fn check_expirations(&self) {
        futures_intrusive::timer::GenericTimerService::check_expirations(self)
    }
}

pub struct TaskSpec {
    pub name: &'static str,
    /// may be killed by the fault injector
    pub killable: bool,
    pub fut: Pin<Box<dyn Future<Output = ()>>>,
}

pub struct Built {
    pub tasks: Vec<TaskSpec>,
    pub timer: Option<Rc<dyn TimerDriver>>,
    pub clock: ClockRef,
    /// final checks once every task finished or was killed (everything the tasks owned is dropped)
    pub finish: Box<dyn FnOnce(&mut Report)>,
    /// property blamed when the run deadlocks / exceeds its step bound after faults stopped
    pub liveness_prop: &'static str,
    /// total scripted operations (for the step bound)
    pub scripted_ops: u64,
}

struct Task {
    name: &'static str,
    killable: bool,
    fut: Option<crate::quarantine::QDyn>,
    waker: Waker,
    woken: bool,
    done: bool,
    killed: bool,
}

pub struct RunOut {
    pub fails: Vec<Fail>,
    pub log_hash: u64,
    pub stats: Stats,
    pub tape: Vec<u32>,
    pub steps: u64,
    pub sim_time_ms: u64,
    pub nontrivial: bool,
    pub fp: u64,
}

pub struct ScenDef {
    pub name: &'static str,
    pub props: &'static [&'static str],
    pub draw_cfg: fn(&mut Rng) -> Cfg,
    pub build: fn(&Cfg, &mut Chooser, &Rep) -> Built,
}

const MAX_STEPS: u64 = 20_000;

/// Runs one scenario to completion under the given chooser.
pub fn run(def: &ScenDef, cfg: &Cfg, mut ch: Chooser) -> RunOut {
    crate::core::heartbeat();
    drain_woken();
    crate::quarantine::reset();
    let rep: Rep = Rc::new(RefCell::new(Report::default()));
    let built = (def.build)(cfg, &mut ch, &rep);
    let clock = built.clock;
    let start_ms = clock.now();
    let mut tasks: Vec<Task> = built
        .tasks
        .into_iter()
        .enumerate()
        .map(|(i, t)| Task { name: t.name, killable: t.killable, fut: Some(crate::quarantine::QDyn::new(t.fut, "task state machine")), waker: Waker::from(Arc::new(TaskWaker(i))), woken: true, done: false, killed: false })
        .collect();
    let timer = built.timer;
    let p_kill = crate::core::cfg_get(cfg, "p_kill", 0) as usize;
    let p_spurious = crate::core::cfg_get(cfg, "p_spurious", 0) as usize;
    let p_delay = crate::core::cfg_get(cfg, "p_delay", 0) as usize;
    let p_jump = crate::core::cfg_get(cfg, "p_jump", 0) as usize;
    let max_kills = crate::core::cfg_get(cfg, "max_kills", 0) as usize;
    let fault_stop = crate::core::cfg_get(cfg, "fault_stop", 0) as u64;
    let bound = fault_stop + 50 * built.scripted_ops.max(4) + 200;
    let mut delayed: Vec<(u64, usize)> = Vec::new();
    let mut kills = 0usize;
    let mut step = 0u64;
    let mut fp = Hasher64::default();
    let mut pendings = 0u64;
    let mut faults_fired = 0u64;
    let fail_now = |rep: &Rep| !rep.borrow().fails.is_empty();

    loop {
        step += 1;
        rep.borrow_mut().step = step;
        if step > MAX_STEPS.min(bound) {
            let stuck: Vec<&str> = tasks.iter().filter(|t| !t.done && !t.killed).map(|t| t.name).collect();
            rep.borrow_mut().fail(
                built.liveness_prop,
                "step-bound",
                format!("faults stopped at step {} but after {} more steps the tasks {:?} have not finished (livelock or starvation)", fault_stop, step - fault_stop.min(step), stuck),
            );
            break;
        }
        let faults_on = step < fault_stop;
        // deliver wake-ups (possibly delayed)
        for w in drain_woken() {
            if w < tasks.len() && !tasks[w].done && !tasks[w].killed {
                if faults_on && p_delay > 0 && ch.pct(p_delay) {
                    let d = 1 + ch.choose(6) as u64;
                    delayed.push((step + d, w));
                    rep.borrow_mut().fault("delayed_wake");
                    faults_fired += 1;
                } else {
                    tasks[w].woken = true;
                }
            }
        }
        delayed.retain(|(at, w)| {
            if *at <= step {
                if !tasks[*w].done && !tasks[*w].killed {
                    tasks[*w].woken = true;
                }
                false
            } else {
                true
            }
        });
        // fault injection
        if faults_on {
            if p_kill > 0 && kills < max_kills && ch.pct(p_kill) {
                let cands: Vec<usize> = (0..tasks.len()).filter(|i| tasks[*i].killable && !tasks[*i].done && !tasks[*i].killed && tasks[*i].fut.is_some()).collect();
                if !cands.is_empty() {
                    let v = cands[ch.choose(cands.len())];
                    // drop the whole state machine at its current await point
                    let f = tasks[v].fut.take();
                    drop(f);
                    tasks[v].killed = true;
                    tasks[v].woken = false;
                    kills += 1;
                    fp.add(0xDEAD + v as u64);
                    rep.borrow_mut().fault("task_kill");
                    rep.borrow_mut().event(90, v as u32, 0);
                    faults_fired += 1;
                    if fail_now(&rep) {
                        break;
                    }
                    continue;
                }
            }
            if p_jump > 0 && ch.pct(p_jump) {
                let dt = [1u64, 3, 17, 1000][ch.choose(4)];
                clock.set(clock.now().saturating_add(dt));
                rep.borrow_mut().fault("clock_jump");
                faults_fired += 1;
            }
        }
        let runnable: Vec<usize> = (0..tasks.len()).filter(|i| tasks[*i].woken && !tasks[*i].done && !tasks[*i].killed).collect();
        let mut to_poll: Option<usize> = None;
        if faults_on && p_spurious > 0 && ch.pct(p_spurious) {
            let cands: Vec<usize> = (0..tasks.len()).filter(|i| !tasks[*i].woken && !tasks[*i].done && !tasks[*i].killed).collect();
            if !cands.is_empty() {
                to_poll = Some(cands[ch.choose(cands.len())]);
                rep.borrow_mut().fault("spurious_poll");
                faults_fired += 1;
            }
        }
        if to_poll.is_none() && !runnable.is_empty() {
            to_poll = Some(runnable[ch.choose(runnable.len())]);
        }
        if let Some(i) = to_poll {
            tasks[i].woken = false;
            fp.add(i as u64);
            let waker = tasks[i].waker.clone();
            let mut cx = Context::from_waker(&waker);
            let res = {
                let f = tasks[i].fut.as_mut().unwrap();
                crate::core::QUIET_PANICS.with(|q| q.set(true));
                let r = std::panic::catch_unwind(std::panic::AssertUnwindSafe(|| f.poll(&mut cx)));
                crate::core::QUIET_PANICS.with(|q| q.set(false));
                r
            };
            match res {
                Ok(Poll::Ready(())) => {
                    tasks[i].done = true;
                    tasks[i].fut = None;
                }
                Ok(Poll::Pending) => {
                    pendings += 1;
                }
                Err(_) => {
                    let msg = crate::core::take_last_panic().unwrap_or_default();
                    // the state machine is poisoned: leak it instead of running its destructors
                    if let Some(f) = tasks[i].fut.take() {
                        f.leak();
                    }
                    tasks[i].killed = true;
                    let is_assert = msg.starts_with("SCENARIO:");
                    if !is_assert {
                        rep.borrow_mut().fail("C01", "panic", format!("task {} panicked inside the library on a contract-respecting program: {}", tasks[i].name, msg));
                    }
                    break;
                }
            }
            if fail_now(&rep) {
                break;
            }
            continue;
        }
        // nothing runnable
        if !delayed.is_empty() {
            // fast-forward to the earliest delayed wake-up
            let m = delayed.iter().map(|(at, _)| *at).min().unwrap();
            for (at, _) in delayed.iter_mut() {
                if *at == m {
                    *at = step;
                }
            }
            continue;
        }
        if let Some(t) = &timer {
            if let Some(next) = t.next_expiration() {
                // discrete-event time: jump to the next deadline
                let now = clock.now();
                let mut target = now.max(next);
                if faults_on && p_jump > 0 && ch.pct(p_jump) {
                    target = target.saturating_add([1u64, 5, 1000][ch.choose(3)]);
                    rep.borrow_mut().fault("clock_jump_past_deadline");
                    faults_fired += 1;
                }
                clock.set(target);
                t.check_expirations();
                rep.borrow_mut().event(91, 0, target);
                if let Some(n2) = t.next_expiration() {
                    if n2 <= target {
                        rep.borrow_mut().fail("C15", "due-timer-not-expired", format!("check_expirations() at clock {} left a timer with deadline {} registered", target, n2));
                        break;
                    }
                }
                continue;
            }
        }
        if tasks.iter().all(|t| t.done || t.killed) {
            break;
        }
        let stuck: Vec<&str> = tasks.iter().filter(|t| !t.done && !t.killed).map(|t| t.name).collect();
        rep.borrow_mut().fail(
            built.liveness_prop,
            "deadlock",
            format!("nothing is runnable, no wake-up is in flight and no timer is pending, but the tasks {:?} have not finished: a wake-up was lost (step {}, faults {} at step {})", stuck, step, if faults_on { "still active, stop" } else { "stopped" }, fault_stop),
        );
        break;
    }
    // tear everything down: surviving task state machines first (their RAII ledgers fire)
    let had_fail = fail_now(&rep);
    if had_fail {
        // the world may be inconsistent: leak instead of running destructors over it
        for t in tasks.iter_mut() {
            if let Some(f) = t.fut.take() {
                f.leak();
            }
        }
        std::mem::forget(timer);
        std::mem::forget(built.finish);
        crate::quarantine::reset();
    } else {
        for t in tasks.iter_mut() {
            t.fut = None;
        }
        drop(timer);
        let mut r = rep.borrow_mut();
        (built.finish)(&mut r);
        // C01: nothing wrote into the memory of a finished or killed task after it was dropped
        if let Some(msg) = crate::quarantine::check_and_release() {
            r.fail("C01", "write-after-drop", msg);
        }
    }
    drain_woken();
    let r = rep.borrow();
    let mut stats = r.stats.clone();
    stats.ops = step;
    stats.polls_pending = pendings;
    RunOut {
        fails: r.fails.clone(),
        log_hash: {
            let mut h = r.log;
            h.add(step);
            h.add(fp.get());
            h.get()
        },
        stats,
        tape: ch.tape.clone(),
        steps: step,
        sim_time_ms: clock.now().saturating_sub(start_ms).min(10_000_000),
        nontrivial: pendings > 0 && faults_fired > 0,
        fp: fp.get(),
    }
}

pub fn scenarios() -> Vec<&'static ScenDef> {
    scen::all()
}

pub fn scen_by_name(name: &str) -> Option<&'static ScenDef> {
    scenarios().into_iter().find(|s| s.name == name)
}

/// Minimises a failing tape: truncate, zero, drop chunks — same violation class must persist.
pub fn minimise(def: &ScenDef, cfg: &Cfg, tape: &[u32], prop: &str, oracle: &str, budget: usize) -> Vec<u32> {
    let mut tape = tape.to_vec();
    let mut used = 0usize;
    let mut test = |t: &[u32]| -> bool {
        let out = run(def, cfg, Chooser::replay(t.to_vec()));
        out.fails.iter().any(|f| f.prop == prop && f.oracle == oracle)
    };
    // truncate the tail (binary search on the prefix length; fallback value 0 continues the run)
    let (mut lo, mut hi) = (0usize, tape.len());
    while lo < hi && used < budget {
        let mid = (lo + hi) / 2;
        used += 1;
        if test(&tape[..mid]) {
            hi = mid;
        } else {
            lo = mid + 1;
        }
    }
    if hi < tape.len() && test(&tape[..hi]) {
        tape.truncate(hi);
    }
    // zero chunks, then single entries
    let mut chunk = (tape.len() / 2).max(1);
    while chunk >= 1 && used < budget {
        let mut i = 0;
        while i < tape.len() && used < budget {
            let end = (i + chunk).min(tape.len());
            if tape[i..end].iter().any(|v| *v != 0) {
                let mut cand = tape.clone();
                for v in &mut cand[i..end] {
                    *v = 0;
                }
                used += 1;
                if test(&cand) {
                    tape = cand;
                }
            }
            i = end;
        }
        if chunk == 1 {
            break;
        }
        chunk /= 2;
    }
    while tape.last() == Some(&0) {
        tape.pop();
    }
    tape
}

// ---------------------------------------------------------------- batches

pub struct L2Found {
    pub run_index: u64,
    pub cfg: Cfg,
    pub tape: Vec<u32>,
    pub fails: Vec<Fail>,
}

#[derive(Default)]
pub struct L2Batch {
    pub runs: u64,
    pub stats: Stats,
    pub nontrivial: std::collections::HashSet<u64>,
    pub found: Vec<L2Found>,
    pub notes: std::collections::BTreeMap<String, u64>,
    pub samples: Vec<serde_json::Value>,
    pub log_hash_xor: u64,
    pub sim_time_ms: u64,
}

pub fn draw_run_cfg(def: &ScenDef, seed: u64, run: u64, over: &Cfg) -> (Cfg, Rng) {
    let mut rng = Rng::for_run(seed, def.name, run);
    let mut cfg = (def.draw_cfg)(&mut rng);
    for (k, v) in over {
        cfg.insert(k.clone(), *v);
    }
    (cfg, rng)
}

#[allow(clippy::too_many_arguments)]
pub fn run_batch(def: &'static ScenDef, seed: u64, first_run: u64, runs: u64, gate: &str, threads: usize, over: &Cfg, stop_on_first: bool, max_found: usize, idx_dir: Option<&str>) -> L2Batch {
    use std::sync::atomic::{AtomicBool, AtomicU64, Ordering};
    let next = AtomicU64::new(0);
    let stop = AtomicBool::new(false);
    let merged = std::sync::Mutex::new(L2Batch::default());
    const CHUNK: u64 = 256;
    std::thread::scope(|sc| {
        for t in 0..threads.max(1) {
            let (next, stop, merged) = (&next, &stop, &merged);
            sc.spawn(move || {
                let idx_file = idx_dir.and_then(|d| std::fs::File::create(format!("{}/t{}", d, t)).ok());
                let mut out = L2Batch::default();
                loop {
                    if stop.load(Ordering::Relaxed) {
                        break;
                    }
                    let base = next.fetch_add(CHUNK, Ordering::Relaxed);
                    if base >= runs {
                        break;
                    }
                    for r in base..(base + CHUNK).min(runs) {
                        let run = first_run + r;
                        if crate::core::skip_run(run) {
                            continue;
                        }
                        crate::core::heartbeat();
                        if let Some(f) = &idx_file {
                            use std::os::unix::fs::FileExt;
                            let _ = f.write_at(&run.to_le_bytes(), 0);
                        }
                        let (cfg, rng) = draw_run_cfg(def, seed, run, over);
                        let o = super::l2::run(def, &cfg, Chooser::generate(rng));
                        out.runs += 1;
                        out.stats.merge(&o.stats);
                        out.log_hash_xor ^= o.log_hash.wrapping_mul(run | 1);
                        out.sim_time_ms += o.sim_time_ms;
                        if o.nontrivial {
                            out.nontrivial.insert(o.fp);
                        }
                        if out.samples.is_empty() && r % 97 == 3 {
                            out.samples.push(serde_json::json!({"scenario": def.name, "run_index": run, "config": cfg, "choice_tape": o.tape, "steps": o.steps, "event_log_hash": format!("{:016x}", o.log_hash)}));
                        }
                        if !o.fails.is_empty() {
                            if o.fails.iter().any(|f| f.prop == gate || f.prop == "HARNESS") {
                                if out.found.len() < max_found {
                                    crate::core::note_found(run);
                                    out.found.push(L2Found { run_index: run, cfg: cfg.clone(), tape: o.tape.clone(), fails: o.fails.clone() });
                                }
                                if stop_on_first {
                                    stop.store(true, Ordering::Relaxed);
                                }
                            }
                            for f in &o.fails {
                                if f.prop != gate {
                                    *out.notes.entry(format!("{}:{}", f.prop, f.oracle)).or_insert(0) += 1;
                                }
                            }
                        }
                    }
                }
                crate::core::heartbeat_done();
                let mut m = merged.lock().unwrap();
                m.runs += out.runs;
                m.stats.merge(&out.stats);
                m.nontrivial.extend(out.nontrivial);
                m.found.extend(out.found);
                for (k, v) in out.notes {
                    *m.notes.entry(k).or_insert(0) += v;
                }
                m.samples.extend(out.samples);
                m.log_hash_xor ^= out.log_hash_xor;
                m.sim_time_ms += out.sim_time_ms;
            });
        }
    });
    let mut m = merged.into_inner().unwrap();
    m.found.sort_by_key(|f| f.run_index);
    m.samples.truncate(2);
    m
}
