//! L2 scenarios: ordinary `async` programs over the library. Written once, generic over the
//! lock type, so the same source runs with `NoopLock` (local flavour) and `parking_lot`.
//! All scenario-side bookkeeping that must survive a task kill is RAII.

use super::*;
use crate::core::cfg_get;
use crate::flavour::{NoopLock, PlLock};
use futures_intrusive::buffer::{ArrayBuf, GrowingHeapBuf};
use futures_intrusive::channel::shared as sh;
use futures_intrusive::channel::{GenericChannel, GenericOneshotBroadcastChannel, GenericOneshotChannel, GenericStateBroadcastChannel, StateId};
use futures_intrusive::sync::{GenericManualResetEvent, GenericMutex, GenericSemaphore};
use futures_intrusive::timer::{GenericTimerService, LocalTimer};
use lock_api::RawMutex;
use std::cell::Cell;
use std::time::Duration;

fn base_cfg(rng: &mut Rng, c: &mut Cfg) {
    c.insert("lock".into(), rng.below(2) as i64);
    c.insert("p_kill".into(), *rng.pick(&[0i64, 0, 2, 5]));
    c.insert("max_kills".into(), rng.range(0, 2));
    c.insert("p_spurious".into(), *rng.pick(&[0i64, 5, 20]));
    c.insert("p_delay".into(), *rng.pick(&[0i64, 0, 10, 30]));
    c.insert("p_jump".into(), *rng.pick(&[0i64, 0, 5]));
    c.insert("fault_stop".into(), *rng.pick(&[0i64, 30, 100, 400]));
    c.insert("mock_clock".into(), rng.pct(25) as i64);
}

fn mk_timer<M: RawMutex + 'static>(cfg: &Cfg) -> (ClockRef, Rc<GenericTimerService<M>>) {
    let clock = ClockRef::claim(cfg_get(cfg, "mock_clock", 0) != 0);
    clock.set(1000);
    (clock, Rc::new(GenericTimerService::<M>::new(clock.as_dyn())))
}

async fn yields(n: usize) {
    for _ in 0..n {
        yield_now().await;
    }
}

/// Arrival order vs. grant order over the recorded history (fair primitives).
/// Events: base+ARRIVE / base+GRANT (value = had to wait) / base+ABANDON, who = task | size << 8.
fn fifo_history_check(r: &mut Report, base: u32, prop: &str, what: &str, zero_exempt: bool) {
    let hist = r.history.clone();
    let mut waiting: Vec<u32> = Vec::new();
    for (step, kind, who, value) in hist {
        if kind < base || kind > base + 2 {
            continue;
        }
        let size = who >> 8;
        match kind - base {
            EV_ARRIVE => waiting.push(who),
            EV_ABANDON => waiting.retain(|w| *w != who),
            _ => {
                let exempt = zero_exempt && size == 0;
                if value == 1 {
                    // a waiter is granted: nobody who arrived earlier may still wait
                    let pos = waiting.iter().position(|w| *w == who);
                    if let Some(p) = pos {
                        if p != 0 && !exempt {
                            r.fail(prop, "overtaken", format!("fair {}: task {} was granted at step {} although task {} arrived earlier and is still waiting", what, who & 0xff, step, waiting[0] & 0xff));
                            return;
                        }
                        waiting.remove(p);
                    }
                } else if !waiting.is_empty() && !exempt {
                    r.fail(prop, "overtaken", format!("fair {}: task {} was granted immediately at step {} although task {} is still waiting", what, who & 0xff, step, waiting[0] & 0xff));
                    return;
                }
            }
        }
    }
}

// ================================================================ S-mutex

struct CsGuard {
    flag: Rc<Cell<bool>>,
}
impl CsGuard {
    fn enter(flag: &Rc<Cell<bool>>, rep: &Rep, who: usize) -> CsGuard {
        if flag.get() {
            rep.borrow_mut().fail("C02", "two-in-critical-section", format!("task {} entered the critical section while another task is inside", who));
        }
        flag.set(true);
        CsGuard { flag: flag.clone() }
    }
}
impl Drop for CsGuard {
    fn drop(&mut self) {
        self.flag.set(false);
    }
}

fn build_mutex<M: RawMutex + 'static>(cfg: &Cfg, ch: &mut Chooser, rep: &Rep) -> Built {
    let (clock, timer) = mk_timer::<M>(cfg);
    let fair = cfg_get(cfg, "fair", 0) != 0;
    let n = cfg_get(cfg, "tasks", 3) as usize;
    let iters = cfg_get(cfg, "iters", 3) as usize;
    let p_timeout = cfg_get(cfg, "p_timeout", 0) as usize;
    let m = Rc::new(GenericMutex::<M, u64>::new(0, fair));
    let in_cs = Rc::new(Cell::new(false));
    let succ = Rc::new(Cell::new(0u64));
    let mut tasks = Vec::new();
    for i in 0..n {
        let script: Vec<(Option<u64>, usize)> = (0..iters).map(|_| (if ch.pct(p_timeout) { Some(1 + ch.choose(20) as u64) } else { None }, ch.choose(3))).collect();
        let (m, timer, rep, in_cs, succ) = (m.clone(), timer.clone(), rep.clone(), in_cs.clone(), succ.clone());
        tasks.push(TaskSpec {
            name: "locker",
            killable: true,
            fut: Box::pin(async move {
                for (tmo, hold) in script {
                    let lockf = observed(m.lock(), &rep, i as u32, 10);
                    let mut g = match tmo {
                        Some(d) => match timeout(lockf, LocalTimer::delay(&*timer, Duration::from_millis(d))).await {
                            Ok(g) => g,
                            Err(()) => {
                                rep.borrow_mut().fault("lock_timeout");
                                continue;
                            }
                        },
                        None => lockf.await,
                    };
                    let cs = CsGuard::enter(&in_cs, &rep, i);
                    let v = *g;
                    yields(hold).await;
                    // no await between the write and the count: atomic with respect to kills
                    *g = v + 1;
                    succ.set(succ.get() + 1);
                    drop(cs);
                    drop(g);
                    yields(hold / 2).await;
                }
            }),
        });
    }
    let (m2, succ2) = (m.clone(), succ.clone());
    Built {
        tasks,
        timer: Some(timer),
        clock,
        finish: Box::new(move |r| {
            if m2.is_locked() {
                r.fail("C02", "locked-after-all-dropped", "is_locked() is true although every guard was dropped".into());
            }
            match m2.try_lock() {
                Some(g) => {
                    if *g != succ2.get() {
                        r.fail("C02", "torn-counter", format!("{} increments under the guard but the counter is {}", succ2.get(), *g));
                    }
                }
                None => r.fail("C03", "free-mutex-not-lockable", "try_lock() fails although nobody holds the mutex".into()),
            }
            if fair {
                fifo_history_check(r, 10, "C04", "mutex", false);
            }
        }),
        liveness_prop: "C03",
        scripted_ops: (n * iters * 4) as u64,
    }
}

fn cfg_mutex(rng: &mut Rng) -> Cfg {
    let mut c = Cfg::new();
    base_cfg(rng, &mut c);
    c.insert("fair".into(), rng.below(2) as i64);
    c.insert("tasks".into(), rng.range(2, 5));
    c.insert("iters".into(), rng.range(1, 5));
    c.insert("p_timeout".into(), *rng.pick(&[0i64, 20, 50]));
    c
}

// ================================================================ S-sem (scarce)

struct Held {
    held: Rc<Cell<u64>>,
    n: u64,
}
impl Drop for Held {
    fn drop(&mut self) {
        self.held.set(self.held.get() - self.n);
    }
}

fn build_sem<M: RawMutex + 'static>(cfg: &Cfg, ch: &mut Chooser, rep: &Rep) -> Built {
    let (clock, timer) = mk_timer::<M>(cfg);
    let fair = cfg_get(cfg, "fair", 0) != 0;
    let n = cfg_get(cfg, "tasks", 3) as usize;
    let iters = cfg_get(cfg, "iters", 3) as usize;
    let p0 = cfg_get(cfg, "permits", 0) as u64;
    let grants = cfg_get(cfg, "grants", 2) as u64;
    let p_timeout = cfg_get(cfg, "p_timeout", 0) as usize;
    let total = p0 + grants;
    let sem = Rc::new(GenericSemaphore::<M>::new(fair, p0 as usize));
    let circulating = Rc::new(Cell::new(p0));
    let held = Rc::new(Cell::new(0u64));
    let mut tasks = Vec::new();
    {
        // the granter hands out the scarce permits one at a time
        let (sem, circ) = (sem.clone(), circulating.clone());
        let gaps: Vec<usize> = (0..grants).map(|_| ch.choose(4)).collect();
        tasks.push(TaskSpec {
            name: "granter",
            killable: false,
            fut: Box::pin(async move {
                for g in gaps {
                    yields(g).await;
                    circ.set(circ.get() + 1);
                    sem.release(1);
                }
            }),
        });
    }
    for i in 0..n {
        let script: Vec<(u64, Option<u64>, usize)> = (0..iters)
            .map(|_| {
                let want = ch.choose(4) as u64;
                // a request that can never be satisfied always carries a time-out
                let tmo = if want > total || ch.pct(p_timeout) { Some(1 + ch.choose(15) as u64) } else { None };
                (want, tmo, ch.choose(3))
            })
            .collect();
        let (sem, timer, rep, circ, held) = (sem.clone(), timer.clone(), rep.clone(), circulating.clone(), held.clone());
        tasks.push(TaskSpec {
            name: "acquirer",
            killable: true,
            fut: Box::pin(async move {
                for (want, tmo, hold) in script {
                    let acq = observed(sem.acquire(want as usize), &rep, i as u32 | (want as u32) << 8, 20);
                    let rel = match tmo {
                        Some(d) => match timeout(acq, LocalTimer::delay(&*timer, Duration::from_millis(d))).await {
                            Ok(r) => r,
                            Err(()) => {
                                rep.borrow_mut().fault("acquire_timeout");
                                continue;
                            }
                        },
                        None => acq.await,
                    };
                    held.set(held.get() + want);
                    let h = Held { held: held.clone(), n: want };
                    if held.get() > circ.get() {
                        rep.borrow_mut().fail("C05", "over-grant", format!("task {} acquired {} permit(s): {} permits are held in total but only {} exist", i, want, held.get(), circ.get()));
                    }
                    yields(hold).await;
                    drop(h);
                    drop(rel);
                }
            }),
        });
    }
    let sem2 = sem.clone();
    Built {
        tasks,
        timer: Some(timer),
        clock,
        finish: Box::new(move |r| {
            if sem2.permits() as u64 != total {
                r.fail("C05", "permits-not-conserved", format!("everything was dropped: permits() = {} but initial + released = {}", sem2.permits(), total));
            }
            if fair {
                fifo_history_check(r, 20, "C07", "semaphore", true);
            }
        }),
        liveness_prop: "C06",
        scripted_ops: (n * iters * 4) as u64 + grants * 4,
    }
}

fn cfg_sem(rng: &mut Rng) -> Cfg {
    let mut c = Cfg::new();
    base_cfg(rng, &mut c);
    c.insert("fair".into(), rng.below(2) as i64);
    c.insert("tasks".into(), rng.range(2, 5));
    c.insert("iters".into(), rng.range(1, 4));
    c.insert("permits".into(), rng.range(0, 2));
    c.insert("grants".into(), rng.range(1, 3));
    c.insert("p_timeout".into(), *rng.pick(&[0i64, 20, 50]));
    c
}

// ================================================================ S-chan (borrowed mpmc)

type Led = Arc<std::sync::Mutex<MsgLedger>>;

#[derive(Default)]
struct MsgLedger {
    created: Vec<(u32, u32)>,
    dropped: Vec<u8>,
    received: Vec<u8>,
    sent_ok: Vec<bool>,
}
struct Msg {
    id: usize,
    producer: u32,
    seq: u32,
    led: Led,
}
impl Msg {
    fn new(led: &Led, producer: u32, seq: u32) -> Msg {
        let mut l = led.lock().unwrap();
        l.created.push((producer, seq));
        l.dropped.push(0);
        l.received.push(0);
        l.sent_ok.push(false);
        Msg { id: l.created.len() - 1, producer, seq, led: led.clone() }
    }
}
impl Drop for Msg {
    fn drop(&mut self) {
        self.led.lock().unwrap().dropped[self.id] += 1;
    }
}

/// closes the channel when the last producer is gone (finished or killed)
struct ProducerGuard<F: Fn()> {
    live: Rc<Cell<usize>>,
    close: F,
}
impl<F: Fn()> Drop for ProducerGuard<F> {
    fn drop(&mut self) {
        self.live.set(self.live.get() - 1);
        if self.live.get() == 0 {
            (self.close)();
        }
    }
}

fn chan_finish(led: &Led, r: &mut Report) {
    let l = led.lock().unwrap();
    for (id, (p, s)) in l.created.iter().enumerate() {
        if l.dropped[id] != 1 {
            r.fail("C08", "drop-count", format!("message {}/{} was dropped {} time(s)", p, s, l.dropped[id]));
            return;
        }
        if l.received[id] > 1 {
            r.fail("C08", "received-twice", format!("message {}/{} was received {} times", p, s, l.received[id]));
            return;
        }
        if l.sent_ok[id] && l.received[id] == 0 {
            r.fail("C11", "accepted-value-not-delivered", format!("send of message {}/{} reported success but no consumer received it although a consumer drained the channel to the end", p, s));
            r.fail("C08", "accepted-value-lost", format!("send of message {}/{} reported success but no consumer received it although a consumer drained the channel to the end", p, s));
            return;
        }
    }
}

fn consume(led: &Led, rep: &Rep, who: usize, last: &mut Vec<i64>, m: Msg) {
    {
        let mut l = led.lock().unwrap();
        l.received[m.id] += 1;
    }
    let p = m.producer as usize;
    if last.len() <= p {
        last.resize(p + 1, -1);
    }
    if (m.seq as i64) <= last[p] {
        rep.borrow_mut().fail("C09", "per-producer-order", format!("consumer {} received message {}/{} after {}/{}", who, p, m.seq, p, last[p]));
    }
    last[p] = m.seq as i64;
    rep.borrow_mut().event(30, who as u32, (m.producer as u64) << 32 | m.seq as u64);
}

type Arr<const N: usize> = ArrayBuf<Msg, [Msg; N]>;

fn build_chan_generic<M: RawMutex + 'static, A: futures_intrusive::buffer::RingBuf<Item = Msg> + 'static>(cfg: &Cfg, ch: &mut Chooser, rep: &Rep) -> Built {
    let (clock, timer) = mk_timer::<M>(cfg);
    let np = cfg_get(cfg, "producers", 2) as usize;
    let nc = cfg_get(cfg, "consumers", 2) as usize;
    let items = cfg_get(cfg, "items", 3) as usize;
    let p_timeout = cfg_get(cfg, "p_timeout", 0) as usize;
    let cap = cfg_get(cfg, "cap", 1) as usize;
    let chan = Rc::new(GenericChannel::<M, Msg, A>::with_capacity(cap));
    let led: Led = Arc::new(std::sync::Mutex::new(MsgLedger::default()));
    let live = Rc::new(Cell::new(np));
    let mut tasks = Vec::new();
    for p in 0..np {
        let gaps: Vec<usize> = (0..items).map(|_| ch.choose(3)).collect();
        let use_try: Vec<bool> = (0..items).map(|_| ch.pct(20)).collect();
        let (chan, led, live, rep) = (chan.clone(), led.clone(), live.clone(), rep.clone());
        // created outside the async block: it must fire even if the task is killed before its first poll
        let c2 = chan.clone();
        let guard = ProducerGuard { live, close: move || drop(c2.close()) };
        tasks.push(TaskSpec {
            name: "producer",
            killable: true,
            fut: Box::pin(async move {
                let _guard = guard;
                for (s, gap) in gaps.into_iter().enumerate() {
                    yields(gap).await;
                    let m = Msg::new(&led, p as u32, s as u32);
                    let id = m.id;
                    if use_try[s] && cap > 0 {
                        match chan.try_send(m) {
                            Ok(()) => led.lock().unwrap().sent_ok[id] = true,
                            Err(e) => {
                                // full or closed: fall back to the awaiting send with the value we got back
                                let m = e.into_inner();
                                if chan.send(m).await.is_ok() {
                                    led.lock().unwrap().sent_ok[id] = true;
                                }
                            }
                        }
                    } else if chan.send(m).await.is_ok() {
                        led.lock().unwrap().sent_ok[id] = true;
                    } else {
                        rep.borrow_mut().probe("send_rejected_after_close");
                    }
                }
            }),
        });
    }
    for c in 0..nc {
        let tmos: Vec<Option<u64>> = (0..4).map(|_| if ch.pct(p_timeout) { Some(1 + ch.choose(10) as u64) } else { None }).collect();
        let use_stream = ch.pct(30);
        let (chan, led, rep, timer) = (chan.clone(), led.clone(), rep.clone(), timer.clone());
        tasks.push(TaskSpec {
            name: "consumer",
            // consumer 0 always drains the channel to the end
            killable: c != 0,
            fut: Box::pin(async move {
                let mut last: Vec<i64> = Vec::new();
                if use_stream {
                    let mut s = Box::pin(chan.stream());
                    loop {
                        let item = std::future::poll_fn(|cx| futures_core::stream::Stream::poll_next(s.as_mut(), cx)).await;
                        match item {
                            Some(m) => consume(&led, &rep, c, &mut last, m),
                            None => break,
                        }
                    }
                    return;
                }
                let mut k = 0;
                loop {
                    let tmo = tmos.get(k).copied().flatten();
                    k += 1;
                    let got = match tmo {
                        // a consumer that abandons a pending receive (finitely often)
                        Some(d) => match timeout(chan.receive(), LocalTimer::delay(&*timer, Duration::from_millis(d))).await {
                            Ok(v) => v,
                            Err(()) => {
                                rep.borrow_mut().fault("receive_abandoned");
                                continue;
                            }
                        },
                        None => chan.receive().await,
                    };
                    match got {
                        Some(m) => consume(&led, &rep, c, &mut last, m),
                        None => break,
                    }
                }
            }),
        });
    }
    let led2 = led.clone();
    let chan2 = chan.clone();
    Built {
        tasks,
        timer: Some(timer),
        clock,
        finish: Box::new(move |r| {
            // whatever is still buffered dies with the channel
            drop(chan2);
            chan_finish(&led2, r);
        }),
        liveness_prop: "C10",
        scripted_ops: ((np * items + nc) * 6) as u64,
    }
}

fn build_chan<M: RawMutex + 'static>(cfg: &Cfg, ch: &mut Chooser, rep: &Rep) -> Built {
    match cfg_get(cfg, "buf", 0) {
        0 => build_chan_generic::<M, Arr<0>>(cfg, ch, rep),
        1 => build_chan_generic::<M, Arr<1>>(cfg, ch, rep),
        2 => build_chan_generic::<M, Arr<2>>(cfg, ch, rep),
        _ => build_chan_generic::<M, GrowingHeapBuf<Msg>>(cfg, ch, rep),
    }
}

fn cfg_chan(rng: &mut Rng) -> Cfg {
    let mut c = Cfg::new();
    base_cfg(rng, &mut c);
    let buf = rng.below(4) as i64;
    c.insert("buf".into(), buf);
    c.insert("cap".into(), if buf < 3 { buf } else { rng.range(0, 3) });
    c.insert("producers".into(), rng.range(1, 3));
    c.insert("consumers".into(), rng.range(1, 3));
    c.insert("items".into(), rng.range(1, 5));
    c.insert("p_timeout".into(), *rng.pick(&[0i64, 30, 60]));
    c
}

// ================================================================ S-chan-shared (handles)

fn build_chan_shared<M: RawMutex + 'static>(cfg: &Cfg, ch: &mut Chooser, rep: &Rep) -> Built {
    let (clock, timer) = mk_timer::<M>(cfg);
    let np = cfg_get(cfg, "producers", 2) as usize;
    let nc = cfg_get(cfg, "consumers", 2) as usize;
    let items = cfg_get(cfg, "items", 3) as usize;
    let p_timeout = cfg_get(cfg, "p_timeout", 0) as usize;
    let cap = cfg_get(cfg, "cap", 1) as usize;
    let (tx, rx) = sh::generic_channel::<M, Msg, GrowingHeapBuf<Msg>>(cap);
    let led: Led = Arc::new(std::sync::Mutex::new(MsgLedger::default()));
    let mut tasks = Vec::new();
    for p in 0..np {
        let gaps: Vec<usize> = (0..items).map(|_| ch.choose(3)).collect();
        let (tx, led, rep) = (tx.clone(), led.clone(), rep.clone());
        tasks.push(TaskSpec {
            name: "producer",
            killable: true,
            fut: Box::pin(async move {
                // the channel closes when the last sender handle is dropped — also on a kill
                for (s, gap) in gaps.into_iter().enumerate() {
                    yields(gap).await;
                    let m = Msg::new(&led, p as u32, s as u32);
                    let id = m.id;
                    if tx.send(m).await.is_ok() {
                        led.lock().unwrap().sent_ok[id] = true;
                    } else {
                        rep.borrow_mut().probe("send_rejected_after_close");
                    }
                }
            }),
        });
    }
    drop(tx);
    for c in 0..nc {
        let tmos: Vec<Option<u64>> = (0..4).map(|_| if ch.pct(p_timeout) { Some(1 + ch.choose(10) as u64) } else { None }).collect();
        let use_stream = ch.pct(30);
        let (rx, led, rep, timer) = (rx.clone(), led.clone(), rep.clone(), timer.clone());
        tasks.push(TaskSpec {
            name: "consumer",
            killable: c != 0,
            fut: Box::pin(async move {
                let mut last: Vec<i64> = Vec::new();
                if use_stream {
                    let mut s = Box::pin(rx.into_stream());
                    loop {
                        let item = std::future::poll_fn(|cx| futures_core::stream::Stream::poll_next(s.as_mut(), cx)).await;
                        match item {
                            Some(m) => consume(&led, &rep, c, &mut last, m),
                            None => break,
                        }
                    }
                    return;
                }
                let mut k = 0;
                loop {
                    let tmo = tmos.get(k).copied().flatten();
                    k += 1;
                    let got = match tmo {
                        Some(d) => match timeout(rx.receive(), LocalTimer::delay(&*timer, Duration::from_millis(d))).await {
                            Ok(v) => v,
                            Err(()) => {
                                rep.borrow_mut().fault("receive_abandoned");
                                continue;
                            }
                        },
                        None => rx.receive().await,
                    };
                    match got {
                        Some(m) => consume(&led, &rep, c, &mut last, m),
                        None => break,
                    }
                }
            }),
        });
    }
    drop(rx);
    let led2 = led.clone();
    Built {
        tasks,
        timer: Some(timer),
        clock,
        finish: Box::new(move |r| chan_finish(&led2, r)),
        liveness_prop: "C10",
        scripted_ops: ((np * items + nc) * 6) as u64,
    }
}

fn cfg_chan_shared(rng: &mut Rng) -> Cfg {
    let mut c = cfg_chan(rng);
    c.insert("cap".into(), rng.range(0, 3));
    c
}

// ================================================================ S-event

fn build_event<M: RawMutex + 'static>(cfg: &Cfg, ch: &mut Chooser, rep: &Rep) -> Built {
    let (clock, timer) = mk_timer::<M>(cfg);
    let n = cfg_get(cfg, "tasks", 3) as usize;
    let iters = cfg_get(cfg, "iters", 2) as usize;
    let flips = cfg_get(cfg, "flips", 3) as usize;
    let p_timeout = cfg_get(cfg, "p_timeout", 0) as usize;
    let ev = Rc::new(GenericManualResetEvent::<M>::new(false));
    let sets = Rc::new(Cell::new(0u64));
    let mut tasks = Vec::new();
    {
        let script: Vec<(bool, usize)> = (0..flips).map(|_| (ch.pct(50), ch.choose(4))).collect();
        let (ev, sets) = (ev.clone(), sets.clone());
        tasks.push(TaskSpec {
            name: "setter",
            killable: false,
            fut: Box::pin(async move {
                for (set, gap) in script {
                    yields(gap).await;
                    if set {
                        sets.set(sets.get() + 1);
                        ev.set();
                    } else {
                        ev.reset();
                    }
                }
                // a last set() with no further set() behind it
                yields(2).await;
                sets.set(sets.get() + 1);
                ev.set();
            }),
        });
    }
    for i in 0..n {
        let script: Vec<Option<u64>> = (0..iters).map(|_| if ch.pct(p_timeout) { Some(1 + ch.choose(10) as u64) } else { None }).collect();
        let (ev, sets, rep, timer) = (ev.clone(), sets.clone(), rep.clone(), timer.clone());
        tasks.push(TaskSpec {
            name: "waiter",
            killable: true,
            fut: Box::pin(async move {
                for tmo in script {
                    // creation and first poll happen in the same executor step
                    let s0 = sets.get();
                    let was_set = ev.is_set();
                    let w = ev.wait();
                    let done = match tmo {
                        Some(d) => timeout(w, LocalTimer::delay(&*timer, Duration::from_millis(d))).await.is_ok(),
                        None => {
                            w.await;
                            true
                        }
                    };
                    if done && !was_set && sets.get() == s0 {
                        rep.borrow_mut().fail("C14", "completed-without-set", format!("waiter {} completed although the event was not set at its first poll and set() was not called since", i));
                    }
                    if !done {
                        rep.borrow_mut().fault("wait_timeout");
                    }
                    yield_now().await;
                }
            }),
        });
    }
    Built { tasks, timer: Some(timer), clock, finish: Box::new(|_| {}), liveness_prop: "C14", scripted_ops: ((n * iters + flips) * 4) as u64 }
}

fn cfg_event(rng: &mut Rng) -> Cfg {
    let mut c = Cfg::new();
    base_cfg(rng, &mut c);
    c.insert("tasks".into(), rng.range(1, 4));
    c.insert("iters".into(), rng.range(1, 3));
    c.insert("flips".into(), rng.range(0, 5));
    c.insert("p_timeout".into(), *rng.pick(&[0i64, 30]));
    c
}

struct CloseOnDrop<F: Fn()>(F);
impl<F: Fn()> Drop for CloseOnDrop<F> {
    fn drop(&mut self) {
        (self.0)()
    }
}

// ================================================================ S-oneshot

fn build_oneshot<M: RawMutex + 'static>(cfg: &Cfg, ch: &mut Chooser, rep: &Rep) -> Built {
    let (clock, timer) = mk_timer::<M>(cfg);
    let n = cfg_get(cfg, "tasks", 3) as usize;
    let broadcast = cfg_get(cfg, "broadcast", 0) != 0;
    let will_send = cfg_get(cfg, "will_send", 1) != 0;
    let gap = ch.choose(6);
    let got_some = Rc::new(Cell::new(0usize));
    let got_none = Rc::new(Cell::new(0usize));
    let finished = Rc::new(Cell::new(0usize));
    let sent = Rc::new(Cell::new(false));
    let mut tasks = Vec::new();
    // one channel of each kind is built; only one is used
    let one = Rc::new(GenericOneshotChannel::<M, u32>::new());
    let bc = Rc::new(GenericOneshotBroadcastChannel::<M, u32>::new());
    {
        let (one, bc, sent) = (one.clone(), bc.clone(), sent.clone());
        // scope guard: the channel is closed when the sender goes away without sending
        // (created outside the async block so that a kill before the first poll fires it too)
        let (o2, b2) = (one.clone(), bc.clone());
        let guard = CloseOnDrop(move || {
            if broadcast {
                drop(b2.close());
            } else {
                drop(o2.close());
            }
        });
        tasks.push(TaskSpec {
            name: "sender",
            killable: true,
            fut: Box::pin(async move {
                let _g = guard;
                yields(gap).await;
                if will_send {
                    let ok = if broadcast { bc.send(7).is_ok() } else { one.send(7).is_ok() };
                    if ok {
                        sent.set(true);
                    }
                }
            }),
        });
    }
    for i in 0..n {
        let pre = ch.choose(8);
        let (one, bc, rep, got_some, got_none, finished) = (one.clone(), bc.clone(), rep.clone(), got_some.clone(), got_none.clone(), finished.clone());
        tasks.push(TaskSpec {
            name: "receiver",
            killable: i != 0,
            fut: Box::pin(async move {
                yields(pre).await;
                let v = if broadcast { bc.receive().await } else { one.receive().await };
                match v {
                    Some(7) => got_some.set(got_some.get() + 1),
                    Some(x) => rep.borrow_mut().fail("C12", "wrong-value", format!("receiver {} got {}", i, x)),
                    None => got_none.set(got_none.get() + 1),
                }
                finished.set(finished.get() + 1);
            }),
        });
    }
    let (gs, gn, fin, sent2) = (got_some.clone(), got_none.clone(), finished.clone(), sent.clone());
    Built {
        tasks,
        timer: Some(timer),
        clock,
        finish: Box::new(move |r| {
            let (some, none, fin) = (gs.get(), gn.get(), fin.get());
            if !sent2.get() && some > 0 {
                r.fail("C12", "value-from-nowhere", format!("{} receiver(s) got a value although nothing was sent", some));
            } else if sent2.get() && broadcast && none > 0 {
                r.fail("C12", "broadcast-missed", format!("the value was sent but {} of {} finished receivers got None", none, fin));
            } else if sent2.get() && !broadcast && some != 1 {
                // receiver 0 is never killed, so somebody must have taken the value
                r.fail("C12", "single-delivery", format!("the value was sent and {} receiver(s) got it (exactly one expected)", some));
            }
        }),
        liveness_prop: "C12",
        scripted_ops: (n * 4 + 8) as u64,
    }
}

fn cfg_oneshot(rng: &mut Rng) -> Cfg {
    let mut c = Cfg::new();
    base_cfg(rng, &mut c);
    c.insert("tasks".into(), rng.range(1, 4));
    c.insert("broadcast".into(), rng.below(2) as i64);
    c.insert("will_send".into(), rng.pct(80) as i64);
    c
}

// ================================================================ S-state

fn build_state<M: RawMutex + 'static>(cfg: &Cfg, ch: &mut Chooser, rep: &Rep) -> Built {
    let (clock, timer) = mk_timer::<M>(cfg);
    let n = cfg_get(cfg, "tasks", 2) as usize;
    let pubs = cfg_get(cfg, "pubs", 3) as usize;
    let chan = Rc::new(GenericStateBroadcastChannel::<M, u64>::new());
    let last_pub = Rc::new(Cell::new(0u64));
    let finals: Rc<RefCell<Vec<(usize, u64)>>> = Rc::new(RefCell::new(Vec::new()));
    let mut tasks = Vec::new();
    {
        let gaps: Vec<usize> = (0..pubs).map(|_| ch.choose(4)).collect();
        let (chan, last_pub) = (chan.clone(), last_pub.clone());
        let c2 = chan.clone();
        let guard = CloseOnDrop(move || drop(c2.close()));
        tasks.push(TaskSpec {
            name: "publisher",
            killable: true,
            fut: Box::pin(async move {
                let _g = guard;
                for (k, gap) in gaps.into_iter().enumerate() {
                    yields(gap).await;
                    let v = k as u64 + 1;
                    if chan.send(v).is_ok() {
                        last_pub.set(v);
                    }
                }
            }),
        });
    }
    for i in 0..n {
        let slow = ch.choose(3);
        let (chan, rep, finals) = (chan.clone(), rep.clone(), finals.clone());
        tasks.push(TaskSpec {
            name: "follower",
            killable: i != 0,
            fut: Box::pin(async move {
                let mut id = StateId::new();
                let mut last = 0u64;
                loop {
                    match chan.receive(id).await {
                        Some((nid, v)) => {
                            if !(nid > id) {
                                rep.borrow_mut().fail("C13", "id-not-increasing", format!("follower {} got a StateId that is not larger than the one it passed in", i));
                            }
                            if v <= last {
                                rep.borrow_mut().fail("C13", "state-went-back", format!("follower {} saw state {} after state {}", i, v, last));
                            }
                            id = nid;
                            last = v;
                            yields(slow).await;
                        }
                        None => break,
                    }
                }
                finals.borrow_mut().push((i, last));
            }),
        });
    }
    let (lp, fin) = (last_pub.clone(), finals.clone());
    Built {
        tasks,
        timer: Some(timer),
        clock,
        finish: Box::new(move |r| {
            for (i, last) in fin.borrow().iter() {
                if *last != lp.get() {
                    r.fail("C13", "did-not-converge", format!("follower {} ended on state {} but the last published state is {}", i, last, lp.get()));
                }
            }
        }),
        liveness_prop: "C13",
        scripted_ops: ((n + 1) * (pubs + 1) * 4) as u64,
    }
}

fn cfg_state(rng: &mut Rng) -> Cfg {
    let mut c = Cfg::new();
    base_cfg(rng, &mut c);
    c.insert("tasks".into(), rng.range(1, 4));
    c.insert("pubs".into(), rng.range(0, 5));
    c
}

// ================================================================ S-timer

fn build_timer<M: RawMutex + 'static>(cfg: &Cfg, ch: &mut Chooser, rep: &Rep) -> Built {
    let (clock, timer) = mk_timer::<M>(cfg);
    let n = cfg_get(cfg, "tasks", 3) as usize;
    let iters = cfg_get(cfg, "iters", 3) as usize;
    let mut tasks = Vec::new();
    for i in 0..n {
        let script: Vec<(u64, Option<u64>)> = (0..iters).map(|_| ([0u64, 1, 5, 5, 20, 100][ch.choose(6)], if ch.pct(25) { Some([1u64, 5, 30][ch.choose(3)]) } else { None })).collect();
        let (timer, rep) = (timer.clone(), rep.clone());
        tasks.push(TaskSpec {
            name: "sleeper",
            killable: true,
            fut: Box::pin(async move {
                for (d, cancel_after) in script {
                    let deadline = clock.now() + d;
                    let sleep = LocalTimer::deadline(&*timer, deadline);
                    let fired = match cancel_after {
                        Some(c) => timeout(sleep, LocalTimer::delay(&*timer, Duration::from_millis(c))).await.is_ok(),
                        None => {
                            sleep.await;
                            true
                        }
                    };
                    if fired && clock.now() < deadline {
                        rep.borrow_mut().fail("C15", "early", format!("sleeper {} woke at clock {} before its deadline {}", i, clock.now(), deadline));
                    }
                    if !fired {
                        rep.borrow_mut().fault("sleep_cancelled");
                    }
                }
            }),
        });
    }
    Built { tasks, timer: Some(timer), clock, finish: Box::new(|_| {}), liveness_prop: "C15", scripted_ops: (n * iters * 4) as u64 }
}

fn cfg_timer(rng: &mut Rng) -> Cfg {
    let mut c = Cfg::new();
    base_cfg(rng, &mut c);
    c.insert("tasks".into(), rng.range(1, 5));
    c.insert("iters".into(), rng.range(1, 4));
    c
}

// ================================================================ registry

macro_rules! by_lock {
    ($f:ident) => {
        |cfg, ch, rep| if cfg_get(cfg, "lock", 0) == 0 { $f::<NoopLock>(cfg, ch, rep) } else { $f::<PlLock>(cfg, ch, rep) }
    };
}

static S_MUTEX: ScenDef = ScenDef { name: "S-mutex", props: &["C02", "C03", "C04", "C01"], draw_cfg: cfg_mutex, build: by_lock!(build_mutex) };
static S_SEM: ScenDef = ScenDef { name: "S-sem", props: &["C05", "C06", "C07", "C01"], draw_cfg: cfg_sem, build: by_lock!(build_sem) };
static S_CHAN: ScenDef = ScenDef { name: "S-chan", props: &["C08", "C09", "C10", "C11", "C01"], draw_cfg: cfg_chan, build: by_lock!(build_chan) };
static S_CHAN_SHARED: ScenDef = ScenDef { name: "S-chan-shared", props: &["C08", "C09", "C10", "C11", "C01"], draw_cfg: cfg_chan_shared, build: by_lock!(build_chan_shared) };
static S_EVENT: ScenDef = ScenDef { name: "S-event", props: &["C14", "C01"], draw_cfg: cfg_event, build: by_lock!(build_event) };
static S_ONESHOT: ScenDef = ScenDef { name: "S-oneshot", props: &["C12", "C11", "C01"], draw_cfg: cfg_oneshot, build: by_lock!(build_oneshot) };
static S_STATE: ScenDef = ScenDef { name: "S-state", props: &["C13", "C11", "C01"], draw_cfg: cfg_state, build: by_lock!(build_state) };
static S_TIMER: ScenDef = ScenDef { name: "S-timer", props: &["C15", "C01"], draw_cfg: cfg_timer, build: by_lock!(build_timer) };

pub fn all() -> Vec<&'static ScenDef> {
    vec![&S_MUTEX, &S_SEM, &S_CHAN, &S_CHAN_SHARED, &S_EVENT, &S_ONESHOT, &S_STATE, &S_TIMER]
}
