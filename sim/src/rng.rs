//! The only source of randomness of the simulator: one xoshiro256** stream per run,
//! seeded from (VERIF_SEED, check/world id, run index) through SplitMix64.

#[derive(Clone, Debug)]
pub struct Rng {
    s: [u64; 4],
    pub draws: u64,
}

pub fn splitmix(x: &mut u64) -> u64 {
    *x = x.wrapping_add(0x9E37_79B9_7F4A_7C15);
    let mut z = *x;
    z = (z ^ (z >> 30)).wrapping_mul(0xBF58_476D_1CE4_E5B9);
    z = (z ^ (z >> 27)).wrapping_mul(0x94D0_49BB_1331_11EB);
    z ^ (z >> 31)
}

/// Stable string hash (FNV-1a) — never std's randomised hasher.
pub fn fnv(s: &str) -> u64 {
    let mut h: u64 = 0xcbf2_9ce4_8422_2325;
    for b in s.bytes() {
        h ^= b as u64;
        h = h.wrapping_mul(0x0000_0100_0000_01B3);
    }
    h
}

pub fn mix(seed: u64, stream: &str, run: u64) -> u64 {
    let mut x = seed ^ fnv(stream).rotate_left(17) ^ run.wrapping_mul(0xD6E8_FEB8_6659_FD93);
    let a = splitmix(&mut x);
    let b = splitmix(&mut x);
    a ^ b.rotate_left(29)
}

impl Rng {
    pub fn new(seed: u64) -> Rng {
        let mut x = seed;
        let s = [splitmix(&mut x), splitmix(&mut x), splitmix(&mut x), splitmix(&mut x)];
        Rng { s, draws: 0 }
    }
    pub fn for_run(seed: u64, stream: &str, run: u64) -> Rng {
        Rng::new(mix(seed, stream, run))
    }
    pub fn next(&mut self) -> u64 {
        self.draws += 1;
        let r = self.s[1].wrapping_mul(5).rotate_left(7).wrapping_mul(9);
        let t = self.s[1] << 17;
        self.s[2] ^= self.s[0];
        self.s[3] ^= self.s[1];
        self.s[1] ^= self.s[2];
        self.s[0] ^= self.s[3];
        self.s[2] ^= t;
        self.s[3] = self.s[3].rotate_left(45);
        r
    }
    /// uniform in 0..n (n > 0)
    pub fn below(&mut self, n: u64) -> u64 {
        debug_assert!(n > 0);
        ((self.next() >> 11) as u128 * n as u128 >> 53) as u64
    }
    pub fn range(&mut self, lo: i64, hi_incl: i64) -> i64 {
        lo + self.below((hi_incl - lo + 1) as u64) as i64
    }
    /// true with probability pct/100
    pub fn pct(&mut self, pct: u64) -> bool {
        self.below(100) < pct
    }
    pub fn pick<'a, T>(&mut self, xs: &'a [T]) -> &'a T {
        &xs[self.below(xs.len() as u64) as usize]
    }
    /// weighted choice: returns index
    pub fn weighted(&mut self, w: &[u32]) -> usize {
        let total: u64 = w.iter().map(|x| *x as u64).sum();
        if total == 0 {
            return 0;
        }
        let mut r = self.below(total);
        for (i, x) in w.iter().enumerate() {
            if r < *x as u64 {
                return i;
            }
            r -= *x as u64;
        }
        w.len() - 1
    }
}

/// Order-sensitive 64-bit hash for event logs and fingerprints.
#[derive(Clone, Copy, Debug)]
pub struct Hasher64(pub u64);
impl Default for Hasher64 {
    fn default() -> Self {
        Hasher64(0x1234_5678_9ABC_DEF1)
    }
}
impl Hasher64 {
    #[inline]
    pub fn add(&mut self, v: u64) {
        let mut x = self.0 ^ v.wrapping_mul(0x9E37_79B9_7F4A_7C15);
        x = (x ^ (x >> 32)).wrapping_mul(0xD6E8_FEB8_6659_FD93);
        x = (x ^ (x >> 29)).rotate_left(23);
        self.0 = x.wrapping_add(0x2545_F491_4F6C_DD1D);
    }
    pub fn add_str(&mut self, s: &str) {
        self.add(fnv(s));
    }
    pub fn get(&self) -> u64 {
        self.0
    }
}
