//! `simctl check <Cxx> --tier quick|thorough`: runs the layers / worlds that decide one
//! property, gates on that property's oracles only, minimises and persists the first
//! violation as a replay file, honours known_findings.json, writes the evidence file.

use crate::core::*;
use crate::l1::{self, BatchSpec, Replay};
use serde::{Deserialize, Serialize};
use serde_json::json;
use std::collections::BTreeMap;
use std::path::{Path, PathBuf};
use std::time::Instant;

pub struct PlanItem {
    pub layer: &'static str,
    pub world: &'static str,
    pub quick: u64,
    pub thorough: u64,
    pub over: Vec<(&'static str, i64)>,
}

fn l1item(world: &'static str, quick: u64, thorough: u64) -> PlanItem {
    PlanItem { layer: "L1", world, quick, thorough, over: vec![] }
}

pub fn plan(prop: &str) -> Vec<PlanItem> {
    match prop {
        "C02" | "C03" => vec![l1item("mutex", 400_000, 12_000_000)],
        "C04" => vec![PlanItem { layer: "L1", world: "mutex", quick: 300_000, thorough: 8_000_000, over: vec![("fair", 1)] }],
        "C05" | "C06" => vec![l1item("semaphore", 400_000, 12_000_000)],
        "C01" | "C17" | "C18" => vec![
            l1item("mutex", 150_000, 4_000_000),
            l1item("semaphore", 150_000, 4_000_000),
            l1item("event", 100_000, 3_000_000),
            l1item("timer", 150_000, 4_000_000),
            l1item("mpmc", 200_000, 5_000_000),
            l1item("oneshot", 100_000, 3_000_000),
            l1item("state_broadcast", 100_000, 3_000_000),
        ],
        "C11" => vec![l1item("mpmc", 250_000, 6_000_000), l1item("oneshot", 200_000, 5_000_000), l1item("state_broadcast", 200_000, 5_000_000)],
        "C12" => vec![l1item("oneshot", 400_000, 12_000_000)],
        "C13" => vec![l1item("state_broadcast", 400_000, 12_000_000)],
        "C08" | "C09" | "C10" => vec![l1item("mpmc", 400_000, 12_000_000)],
        "C15" => vec![l1item("timer", 400_000, 12_000_000)],
        "C14" => vec![l1item("event", 400_000, 12_000_000)],
        "C07" => vec![PlanItem { layer: "L1", world: "semaphore", quick: 300_000, thorough: 8_000_000, over: vec![("fair", 1)] }],
        _ => vec![],
    }
}

#[derive(Clone, Debug, Serialize, Deserialize, Default)]
pub struct KnownFindings {
    #[serde(default)]
    pub open: Vec<OpenFinding>,
    #[serde(default)]
    pub fixed: Vec<String>,
}

#[derive(Clone, Debug, Serialize, Deserialize)]
pub struct OpenFinding {
    pub property: String,
    pub signature: String,
    pub what: String,
}

pub fn load_known(root: &Path) -> KnownFindings {
    match std::fs::read_to_string(root.join("known_findings.json")) {
        Ok(s) => serde_json::from_str(&s).unwrap_or_else(|e| {
            eprintln!("harness error: known_findings.json does not parse: {}", e);
            std::process::exit(2)
        }),
        Err(_) => KnownFindings::default(),
    }
}

pub fn signature(world: &str, oracle: &str, cfg: &Cfg, op_names: &[String]) -> String {
    let fair = cfg.get("fair").map(|v| format!("/fair={}", v)).unwrap_or_default();
    let names: Vec<&str> = op_names.iter().map(|s| s.split('(').next().unwrap_or("")).collect();
    format!("{}/{}{}/{}", world, oracle, fair, names.join(">"))
}

pub struct CheckOutcome {
    pub violations: u32,
    pub known: u32,
}

fn write_replay(root: &Path, rep: &Replay) -> PathBuf {
    let dir = root.join("replays");
    let _ = std::fs::create_dir_all(&dir);
    let name = format!("{}-{}-{}-s{}-r{}-{}.json", rep.property, rep.layer, rep.world, rep.seed, rep.run_index, &rep.event_log_hash[..8]);
    let path = dir.join(name);
    std::fs::write(&path, serde_json::to_string_pretty(rep).unwrap()).expect("cannot write replay file");
    path
}

/// Re-executes a replay file. Returns the failures of the run.
pub fn run_replay(rep: &Replay) -> Result<(Vec<Fail>, u64), String> {
    match rep.layer.as_str() {
        "L1" => {
            let def = l1::world_by_name(&rep.world).ok_or_else(|| format!("unknown world {}", rep.world))?;
            let mut env = Env::new();
            Ok(l1::execute(def, &rep.config, &rep.ops, &mut env))
        }
        other => Err(format!("unknown layer {}", other)),
    }
}

pub fn cmd_replay(path: &str) -> i32 {
    let s = match std::fs::read_to_string(path) {
        Ok(s) => s,
        Err(e) => {
            eprintln!("harness error: cannot read {}: {}", path, e);
            return 2;
        }
    };
    let rep: Replay = match serde_json::from_str(&s) {
        Ok(r) => r,
        Err(e) => {
            eprintln!("harness error: {} is not a replay file: {}", path, e);
            return 2;
        }
    };
    match run_replay(&rep) {
        Err(e) => {
            eprintln!("harness error: {}", e);
            2
        }
        Ok((fails, hash)) => {
            println!("replay {}: layer={} world={} ops={} event_log_hash={:016x} (recorded {})", path, rep.layer, rep.world, rep.ops.len(), hash, rep.event_log_hash);
            for f in &fails {
                println!("  oracle {}:{} at op {}: {}", f.prop, f.oracle, f.at_op, f.msg);
            }
            if fails.iter().any(|f| f.prop == rep.property) {
                println!("VIOLATION property={} replay={}", rep.property, path);
                1
            } else {
                println!("replay passes: property {} holds on this trace", rep.property);
                0
            }
        }
    }
}

pub fn cmd_check(root: &Path, prop: &str, tier: &str, seed: u64, threads: usize) -> i32 {
    let t0 = Instant::now();
    let items = plan(prop);
    if items.is_empty() {
        eprintln!("harness error: no check is registered for property {}", prop);
        return 2;
    }
    let known = load_known(root);
    let mut violations = 0u32;
    let mut known_hits = 0u32;
    let mut evaluations = 0u64;
    let mut nontrivial = 0u64;
    let mut states = 0u64;
    let mut transitions = 0u64;
    let mut faults: BTreeMap<String, u64> = BTreeMap::new();
    let mut probes: BTreeMap<String, u64> = BTreeMap::new();
    let mut layers: BTreeMap<String, serde_json::Value> = BTreeMap::new();
    let mut samples: Vec<serde_json::Value> = Vec::new();
    let mut notes: BTreeMap<String, u64> = BTreeMap::new();
    let mut sim_time_ms = 0u64;
    let mut total_ops = 0u64;
    let mut reported_sigs: Vec<String> = Vec::new();

    // 1. regression inputs: committed replays of this property must pass
    let regress = root.join("replays").join("regress");
    if let Ok(rd) = std::fs::read_dir(&regress) {
        let mut files: Vec<PathBuf> = rd.flatten().map(|e| e.path()).filter(|p| p.extension().map(|x| x == "json").unwrap_or(false)).collect();
        files.sort();
        let mut n = 0;
        for f in files {
            let s = std::fs::read_to_string(&f).unwrap_or_default();
            let rep: Replay = match serde_json::from_str(&s) {
                Ok(r) => r,
                Err(_) => continue,
            };
            if rep.property != prop {
                continue;
            }
            n += 1;
            match run_replay(&rep) {
                Ok((fails, _)) => {
                    if fails.iter().any(|x| x.prop == prop) {
                        println!("VIOLATION property={} replay={}", prop, f.display());
                        violations += 1;
                    }
                }
                Err(e) => {
                    eprintln!("harness error: {}", e);
                    return 2;
                }
            }
        }
        layers.insert("regression_replays".into(), json!({ "files": n }));
    }

    // 2. seeded search
    for item in &items {
        let runs = if tier == "thorough" { item.thorough } else { item.quick };
        match item.layer {
            "L1" => {
                let def = l1::world_by_name(item.world).expect("plan names an unknown world");
                let mut over = Cfg::new();
                for (k, v) in &item.over {
                    over.insert(k.to_string(), *v);
                }
                let mut first_run = 0u64;
                let mut remaining = runs;
                let mut item_runs = 0u64;
                // a known finding does not end the search: continue behind it
                loop {
                    let spec = BatchSpec {
                        def,
                        seed,
                        first_run,
                        runs: remaining,
                        gate_prop: prop,
                        threads,
                        cfg_override: over.clone(),
                        collect_states: true,
                        stop_on_first: true,
                        max_found: 64,
                    };
                    let out = l1::run_batch(&spec);
                    evaluations += out.runs;
                    item_runs += out.runs;
                    nontrivial += out.nontrivial_fps.len() as u64;
                    states += out.states.len() as u64;
                    transitions += out.transitions.len() as u64;
                    sim_time_ms += out.sim_time_ms;
                    total_ops += out.stats.ops;
                    for (k, v) in &out.stats.faults {
                        *faults.entry(k.to_string()).or_insert(0) += v;
                    }
                    for (k, v) in &out.stats.probes {
                        *probes.entry(k.to_string()).or_insert(0) += v;
                    }
                    for (k, v) in &out.notes {
                        *notes.entry(k.clone()).or_insert(0) += v;
                    }
                    if samples.len() < 3 {
                        samples.extend(out.samples.iter().cloned());
                    }
                    if out.found.is_empty() {
                        break;
                    }
                    // triage every violating run of this batch (lowest run index first)
                    let mut env = Env::new();
                    let mut new_violation = false;
                    for f in &out.found {
                        let first = match f.fails.iter().find(|x| x.prop == prop || x.prop == "HARNESS") {
                            Some(x) => x.clone(),
                            None => continue,
                        };
                        if first.prop == "HARNESS" {
                            eprintln!("harness error in world {} run {}: {}", item.world, f.run_index, first.msg);
                            return 2;
                        }
                        let (mcfg, mops) = l1::minimise(def, &f.cfg, &f.ops, &first.prop, &first.oracle, &mut env, 2000);
                        let (mfails, h1) = l1::execute(def, &mcfg, &mops, &mut env);
                        let (_, h2) = l1::execute(def, &mcfg, &mops, &mut env);
                        let mf = match mfails.iter().find(|x| x.prop == first.prop && x.oracle == first.oracle) {
                            Some(x) => x.clone(),
                            None => {
                                eprintln!("harness error: minimised trace lost the violation");
                                return 2;
                            }
                        };
                        if h1 != h2 {
                            eprintln!("harness error: replay of run {} is not deterministic", f.run_index);
                            return 2;
                        }
                        let readable = l1::render_ops(def, &mops);
                        let sig = signature(item.world, &mf.oracle, &mcfg, &readable);
                        if let Some(k) = known.open.iter().find(|k| k.property == prop && k.signature == sig) {
                            if !reported_sigs.contains(&sig) {
                                println!("KNOWN-FINDING: property={} {} [{}]", prop, k.what, sig);
                                reported_sigs.push(sig.clone());
                                known_hits += 1;
                            }
                            continue;
                        }
                        let rep = Replay {
                            property: prop.to_string(),
                            oracle: mf.oracle.clone(),
                            layer: "L1".into(),
                            world: item.world.to_string(),
                            seed,
                            run_index: f.run_index,
                            config: mcfg.clone(),
                            ops: mops.clone(),
                            ops_readable: readable,
                            message: mf.msg.clone(),
                            event_log_hash: format!("{:016x}", h1),
                            minimised_from_ops: f.ops.len(),
                            runner: "native".into(),
                        };
                        let path = write_replay(root, &rep);
                        println!("violation: {} [{}] signature {}", mf.msg, mf.oracle, sig);
                        println!("VIOLATION property={} replay={}", prop, path.display());
                        violations += 1;
                        new_violation = true;
                        break;
                    }
                    if new_violation {
                        break;
                    }
                    // only known findings in this batch: continue after the last triaged run
                    let last = out.found.iter().map(|f| f.run_index).max().unwrap();
                    let done = last + 1 - first_run;
                    if done >= remaining {
                        break;
                    }
                    remaining -= done;
                    first_run = last + 1;
                }
                layers.insert(format!("L1:{}", item.world), json!({ "runs": item_runs, "config_override": item.over.iter().map(|(k, v)| format!("{}={}", k, v)).collect::<Vec<_>>() }));
            }
            _ => {}
        }
        if violations > 0 {
            break;
        }
    }

    for (k, v) in &notes {
        println!("note: {} run(s) tripped oracle {} (not gating here; see that property's check)", v, k);
    }

    let wall = t0.elapsed().as_secs_f64();
    let evidence = json!({
        "property_id": prop,
        "tier": tier,
        "seed": seed,
        "level": "exploration",
        "coverage": {
            "evaluations": evaluations,
            "distinct_nontrivial": nontrivial,
            "rule": "runs are drawn swarm-style from VERIF_SEED (one xoshiro stream per run index); a run is non-trivial if at least one poll returned Pending and at least one fault kind fired; distinct = distinct hash of the run's operation-kind sequence among non-trivial runs (per world, summed over worlds)",
            "samples": samples,
            "states": states,
            "transitions": transitions,
            "runs_per_hour": if wall > 0.0 { (evaluations as f64 / wall * 3600.0) as u64 } else { 0 },
            "operations_executed": total_ops,
            "sim_time_ms_covered": sim_time_ms,
            "fault_fired": faults,
            "probes": probes,
            "layers": layers,
            "other_oracle_notes": notes,
            "components": {
                "real": ["futures-intrusive (all primitives, local / parking_lot / shared flavours)", "futures-core", "lock_api", "parking_lot"],
                "stub": ["executor (simulator decides every poll, drop, wake consumption)", "wakers (simulator-owned, logging)", "clock (SimClock behind the crate's Clock trait)"]
            },
            "known_findings_hit": known_hits,
        },
        "assumptions": [
            "sampling, not enumeration: bounded histories (<= 96 ops, <= 6 live futures), sequentially consistent execution",
            "guarded hooks (cfg futures_intrusive_verif) are read-only",
        ],
        "wall_s": wall,
        "violations": violations,
    });
    let evdir = root.join("evidence");
    let _ = std::fs::create_dir_all(&evdir);
    if let Err(e) = std::fs::write(evdir.join(format!("{}.json", prop)), serde_json::to_string_pretty(&evidence).unwrap()) {
        eprintln!("harness error: cannot write evidence: {}", e);
        return 2;
    }
    println!("check {} tier={} seed={} evaluations={} distinct_nontrivial={} states={} wall={:.1}s violations={} known={}", prop, tier, seed, evaluations, nontrivial, states, wall, violations, known_hits);
    if violations > 0 {
        1
    } else {
        0
    }
}
