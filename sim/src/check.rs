//! `simctl check <Cxx> --tier quick|thorough`: runs the layers / worlds that decide one
//! property, gates on that property's oracles only, minimises and persists the first
//! violation as a replay file, honours known_findings.json, writes the evidence file.
//!
//! All simulation runs execute in child processes (`simctl worker`): a library bug may
//! corrupt memory inside a single call before any oracle runs. If a child dies, the parent
//! finds the run from the per-thread index files, re-executes it alone with a write-ahead
//! operation log, minimises the logged trace (a dying child counts as "still failing") and
//! reports it as a C01 violation with a replay file.

use crate::core::*;
use crate::l1::{self, BatchSpec, Replay};
use crate::l2;
#[cfg(feature = "l3")]
use crate::l3;
use serde::{Deserialize, Serialize};
use serde_json::json;
use std::collections::BTreeMap;
use std::path::{Path, PathBuf};
use std::process::Command;
use std::time::Instant;

// ---------------------------------------------------------------- plan

pub struct PlanItem {
    pub layer: &'static str,
    pub name: &'static str,
    pub quick: u64,
    pub thorough: u64,
    pub over: Vec<(&'static str, i64)>,
}

fn l1(name: &'static str, quick: u64, thorough: u64) -> PlanItem {
    PlanItem { layer: "L1", name, quick, thorough, over: vec![] }
}
fn l1o(name: &'static str, quick: u64, thorough: u64, over: Vec<(&'static str, i64)>) -> PlanItem {
    PlanItem { layer: "L1", name, quick, thorough, over }
}
fn l2(name: &'static str, quick: u64, thorough: u64) -> PlanItem {
    PlanItem { layer: "L2", name, quick, thorough, over: vec![] }
}
fn l3(name: &'static str, quick: u64, thorough: u64) -> PlanItem {
    PlanItem { layer: "L3", name, quick, thorough, over: vec![] }
}
fn l2o(name: &'static str, quick: u64, thorough: u64, over: Vec<(&'static str, i64)>) -> PlanItem {
    PlanItem { layer: "L2", name, quick, thorough, over }
}
fn l3o(name: &'static str, quick: u64, thorough: u64, over: Vec<(&'static str, i64)>) -> PlanItem {
    PlanItem { layer: "L3", name, quick, thorough, over }
}

pub fn plan(prop: &str) -> Vec<PlanItem> {
    match prop {
        "C01" | "C17" | "C18" => {
            let mut v = vec![
                l1("mutex", 150_000, 4_000_000),
                l1("semaphore", 150_000, 4_000_000),
                l1("event", 100_000, 3_000_000),
                l1("timer", 150_000, 4_000_000),
                l1("mpmc", 200_000, 5_000_000),
                l1("oneshot", 100_000, 3_000_000),
                l1("state_broadcast", 100_000, 3_000_000),
            ];
            if prop == "C01" {
                for s in ["S-mutex", "S-sem", "S-chan", "S-chan-shared", "S-event", "S-oneshot", "S-state", "S-timer"] {
                    v.push(l2o(s, 60_000, 1_500_000, vec![("p_kill", 5), ("max_kills", 2)]));
                }
                for s in ["T-mutex", "T-sem", "T-chan", "T-chan-shared", "T-event", "T-oneshot", "T-state", "T-timer", "T-handles"] {
                    v.push(l3(s, 15_000, 400_000));
                }
            }
            if prop == "C17" {
                // is_terminated() right after every poll, under the thread scheduler
                v.push(l3("T-state", 40_000, 1_500_000));
                v.push(l3("T-oneshot", 40_000, 1_500_000));
            }
            v
        }
        "C02" | "C03" => vec![l1("mutex", 400_000, 12_000_000), l2("S-mutex", 300_000, 8_000_000), l3("T-mutex", 60_000, 3_000_000)],
        "C04" => vec![l1o("mutex", 300_000, 8_000_000, vec![("fair", 1)]), l2o("S-mutex", 200_000, 5_000_000, vec![("fair", 1)]), l3o("T-mutex", 40_000, 2_000_000, vec![("fair", 1)])],
        "C05" | "C06" => vec![l1("semaphore", 400_000, 12_000_000), l2("S-sem", 300_000, 8_000_000), l3("T-sem", 60_000, 3_000_000)],
        "C07" => vec![l1o("semaphore", 300_000, 8_000_000, vec![("fair", 1)]), l2o("S-sem", 200_000, 5_000_000, vec![("fair", 1)]), l3o("T-sem", 40_000, 2_000_000, vec![("fair", 1)])],
        "C08" | "C09" | "C10" => vec![
            l1("mpmc", 400_000, 12_000_000),
            l2("S-chan", 200_000, 5_000_000),
            l2("S-chan-shared", 200_000, 5_000_000),
            l3("T-chan", 40_000, 2_000_000),
            l3("T-chan-shared", 40_000, 2_000_000),
            l3o("T-handles", 30_000, 1_500_000, vec![("kind", 3)]),
        ],
        "C11" => vec![
            l1("mpmc", 250_000, 6_000_000),
            l1("oneshot", 200_000, 5_000_000),
            l1("state_broadcast", 200_000, 5_000_000),
            l2("S-chan", 100_000, 3_000_000),
            l2("S-chan-shared", 100_000, 3_000_000),
            l2("S-oneshot", 100_000, 3_000_000),
            l2("S-state", 100_000, 3_000_000),
            l3("T-chan", 30_000, 1_500_000),
            l3("T-chan-shared", 30_000, 1_500_000),
            l3("T-oneshot", 30_000, 1_500_000),
            l3("T-state", 30_000, 1_500_000),
            l3("T-handles", 60_000, 3_000_000),
        ],
        "C12" => vec![l1("oneshot", 400_000, 12_000_000), l2("S-oneshot", 300_000, 8_000_000), l3("T-oneshot", 60_000, 3_000_000)],
        "C13" => vec![l1("state_broadcast", 400_000, 12_000_000), l2("S-state", 300_000, 8_000_000), l3("T-state", 60_000, 3_000_000)],
        "C14" => vec![l1("event", 400_000, 12_000_000), l2("S-event", 300_000, 8_000_000), l3("T-event", 60_000, 3_000_000)],
        "C15" => vec![l1("timer", 400_000, 12_000_000), l2("S-timer", 300_000, 8_000_000), l3("T-timer", 40_000, 2_000_000)],
        _ => vec![],
    }
}

// ---------------------------------------------------------------- known findings

#[derive(Clone, Debug, Serialize, Deserialize, Default)]
pub struct KnownFindings {
    #[serde(default)]
    pub open: Vec<OpenFinding>,
    #[serde(default)]
    pub fixed: Vec<String>,
}

#[derive(Clone, Debug, Serialize, Deserialize)]
pub struct OpenFinding {
    pub property: String,
    pub signature: String,
    pub what: String,
}

pub fn load_known(root: &Path) -> KnownFindings {
    match std::fs::read_to_string(root.join("known_findings.json")) {
        Ok(s) => serde_json::from_str(&s).unwrap_or_else(|e| {
            eprintln!("harness error: known_findings.json does not parse: {}", e);
            std::process::exit(2)
        }),
        Err(_) => KnownFindings::default(),
    }
}

pub fn signature(world: &str, oracle: &str, cfg: &Cfg, op_names: &[String]) -> String {
    let fair = cfg.get("fair").map(|v| format!("/fair={}", v)).unwrap_or_default();
    let names: Vec<&str> = op_names.iter().map(|s| s.split('(').next().unwrap_or("")).collect();
    format!("{}/{}{}/{}", world, oracle, fair, names.join(">"))
}

// ---------------------------------------------------------------- worker protocol

#[derive(Clone, Debug, Serialize, Deserialize)]
pub struct WorkSpec {
    pub layer: String,
    pub name: String,
    pub seed: u64,
    pub first_run: u64,
    pub runs: u64,
    pub gate: String,
    pub threads: usize,
    pub over: Cfg,
    pub stop_on_first: bool,
    pub max_found: usize,
    pub idx_dir: Option<String>,
    pub oplog: Option<String>,
    /// run indexes to leave out (they crash the process on this tree)
    #[serde(default)]
    pub skip: Vec<u64>,
}

#[derive(Clone, Debug, Serialize, Deserialize, Default)]
pub struct FoundOut {
    pub run_index: u64,
    pub cfg: Cfg,
    #[serde(default)]
    pub ops: Vec<Op>,
    #[serde(default)]
    pub tape: Vec<u32>,
    pub fails: Vec<Fail>,
}

#[derive(Clone, Debug, Serialize, Deserialize, Default)]
pub struct WorkOut {
    pub runs: u64,
    pub ops: u64,
    pub faults: BTreeMap<String, u64>,
    pub probes: BTreeMap<String, u64>,
    pub nontrivial: u64,
    pub states: u64,
    pub transitions: u64,
    pub found: Vec<FoundOut>,
    pub notes: BTreeMap<String, u64>,
    pub samples: Vec<serde_json::Value>,
    pub log_hash_xor: u64,
    pub sim_time_ms: u64,
}

fn stats_maps(s: &Stats) -> (BTreeMap<String, u64>, BTreeMap<String, u64>) {
    (s.faults.iter().map(|(k, v)| (k.to_string(), *v)).collect(), s.probes.iter().map(|(k, v)| (k.to_string(), *v)).collect())
}

/// Executed in the child process.
pub fn run_worker(spec: &WorkSpec) -> Result<WorkOut, String> {
    if !spec.skip.is_empty() {
        crate::core::set_skip_runs(spec.skip.clone());
    }
    if let Some(d) = &spec.idx_dir {
        crate::core::set_found_file(&Path::new(d).join("found"));
    }
    match spec.layer.as_str() {
        "L1" => {
            let def = l1::world_by_name(&spec.name).ok_or_else(|| format!("unknown world {}", spec.name))?;
            let bs = BatchSpec {
                def,
                seed: spec.seed,
                first_run: spec.first_run,
                runs: spec.runs,
                gate_prop: &spec.gate,
                threads: spec.threads,
                cfg_override: spec.over.clone(),
                collect_states: true,
                stop_on_first: spec.stop_on_first,
                max_found: spec.max_found,
                idx_dir: spec.idx_dir.clone(),
                oplog: spec.oplog.clone(),
            };
            let out = l1::run_batch(&bs);
            let (faults, probes) = stats_maps(&out.stats);
            Ok(WorkOut {
                runs: out.runs,
                ops: out.stats.ops,
                faults,
                probes,
                nontrivial: out.nontrivial_fps.len() as u64,
                states: out.states.len() as u64,
                transitions: out.transitions.len() as u64,
                found: out.found.into_iter().map(|f| FoundOut { run_index: f.run_index, cfg: f.cfg, ops: f.ops, tape: vec![], fails: f.fails }).collect(),
                notes: out.notes,
                samples: out.samples,
                log_hash_xor: out.log_hash_xor,
                sim_time_ms: out.sim_time_ms,
            })
        }
        "L2" => {
            let def = l2::scen_by_name(&spec.name).ok_or_else(|| format!("unknown scenario {}", spec.name))?;
            if let Some(path) = &spec.oplog {
                // crash isolation: a single run with a write-ahead choice log
                let (cfg, rng) = l2::draw_run_cfg(def, spec.seed, spec.first_run, &spec.over);
                let mut ch = l2::Chooser::generate(rng);
                ch.log = std::fs::File::create(path).ok();
                let o = l2::run(def, &cfg, ch);
                let mut w = WorkOut { runs: 1, ..Default::default() };
                if o.fails.iter().any(|f| f.prop == spec.gate) {
                    w.found.push(FoundOut { run_index: spec.first_run, cfg, ops: vec![], tape: o.tape, fails: o.fails });
                }
                return Ok(w);
            }
            let out = l2::run_batch(def, spec.seed, spec.first_run, spec.runs, &spec.gate, spec.threads, &spec.over, spec.stop_on_first, spec.max_found, spec.idx_dir.as_deref());
            let (faults, probes) = stats_maps(&out.stats);
            Ok(WorkOut {
                runs: out.runs,
                ops: out.stats.ops,
                faults,
                probes,
                nontrivial: out.nontrivial.len() as u64,
                states: 0,
                transitions: 0,
                found: out.found.into_iter().map(|f| FoundOut { run_index: f.run_index, cfg: f.cfg, ops: vec![], tape: f.tape, fails: f.fails }).collect(),
                notes: out.notes,
                samples: out.samples,
                log_hash_xor: out.log_hash_xor,
                sim_time_ms: out.sim_time_ms,
            })
        }
        #[cfg(feature = "l3")]
        "L3" => {
            let def = l3::scen_by_name(&spec.name).ok_or_else(|| format!("unknown scenario {}", spec.name))?;
            l3::install_sched_hook();
            let out = l3::run_batch(def, spec.seed, spec.first_run, spec.runs, &spec.gate, spec.threads, &spec.over, spec.stop_on_first, spec.max_found, spec.idx_dir.as_deref(), spec.oplog.as_deref());
            let (faults, probes) = stats_maps(&out.stats);
            Ok(WorkOut {
                runs: out.runs,
                ops: out.steps,
                faults,
                probes,
                nontrivial: out.nontrivial.len() as u64,
                states: 0,
                transitions: 0,
                found: out
                    .found
                    .into_iter()
                    .map(|f| FoundOut { run_index: f.run_index, cfg: f.cfg, ops: f.trace.draws.iter().map(|d| Op::new(0, 0, 0, *d)).collect(), tape: f.trace.decisions, fails: f.fails })
                    .collect(),
                notes: out.notes,
                samples: out.samples,
                log_hash_xor: out.hash_xor,
                sim_time_ms: 0,
            })
        }
        other => Err(format!("unknown layer {}", other)),
    }
}

pub fn cmd_worker(spec_json: &str) -> i32 {
    let spec: WorkSpec = match serde_json::from_str(spec_json) {
        Ok(s) => s,
        Err(e) => {
            eprintln!("harness error: bad worker spec: {}", e);
            return 2;
        }
    };
    start_watchdog(30);
    match run_worker(&spec) {
        Ok(out) => {
            println!("RESULT {}", serde_json::to_string(&out).unwrap());
            0
        }
        Err(e) => {
            eprintln!("harness error: {}", e);
            2
        }
    }
}

pub enum ChildEnd {
    Ok(WorkOut),
    Crashed(String),
    Harness(String),
}

fn self_exe() -> PathBuf {
    std::env::current_exe().unwrap_or_else(|_| PathBuf::from("/verif/sim/target/release/simctl"))
}

/// `Command::output()` with a wall-clock cap: the child is killed when it exceeds it (its exit
/// status then reports the signal).
fn output_with_timeout(cmd: &mut Command, secs: u64) -> std::io::Result<std::process::Output> {
    use std::io::Read;
    use std::process::Stdio;
    let mut child = cmd.stdout(Stdio::piped()).stderr(Stdio::piped()).spawn()?;
    let mut so = child.stdout.take().unwrap();
    let mut se = child.stderr.take().unwrap();
    let t_out = std::thread::spawn(move || {
        let mut b = Vec::new();
        let _ = so.read_to_end(&mut b);
        b
    });
    let t_err = std::thread::spawn(move || {
        let mut b = Vec::new();
        let _ = se.read_to_end(&mut b);
        b
    });
    let deadline = std::time::Instant::now() + std::time::Duration::from_secs(secs);
    let status = loop {
        match child.try_wait()? {
            Some(st) => break st,
            None => {
                if std::time::Instant::now() > deadline {
                    let _ = child.kill();
                    break child.wait()?;
                }
                std::thread::sleep(std::time::Duration::from_millis(20));
            }
        }
    };
    Ok(std::process::Output { status, stdout: t_out.join().unwrap_or_default(), stderr: t_err.join().unwrap_or_default() })
}

/// Wall-clock cap for one worker process. The worker has its own watchdog (30 s without
/// progress inside one run); this is the safety net behind it: whatever happens in the child,
/// the check itself always terminates. Single runs get two minutes, batches scale with their
/// size (the slowest layer does about 2000 runs per second and thread).
fn worker_time_limit(spec: &WorkSpec) -> std::time::Duration {
    let per_thread = spec.runs / spec.threads.max(1) as u64;
    std::time::Duration::from_secs(120 + per_thread / 500)
}

pub fn spawn_worker(bin: &Path, spec: &WorkSpec) -> ChildEnd {
    use std::io::Read;
    use std::process::Stdio;
    let mut child = match Command::new(bin).arg("worker").arg(serde_json::to_string(spec).unwrap()).stdout(Stdio::piped()).stderr(Stdio::piped()).spawn() {
        Ok(c) => c,
        Err(e) => return ChildEnd::Harness(format!("cannot spawn {}: {}", bin.display(), e)),
    };
    // drain both pipes on their own threads (a full pipe must never block the child)
    let mut so = child.stdout.take().unwrap();
    let mut se = child.stderr.take().unwrap();
    let t_out = std::thread::spawn(move || {
        let mut b = Vec::new();
        let _ = so.read_to_end(&mut b);
        b
    });
    let t_err = std::thread::spawn(move || {
        let mut b = Vec::new();
        let _ = se.read_to_end(&mut b);
        b
    });
    let deadline = std::time::Instant::now() + worker_time_limit(spec);
    let mut timed_out = false;
    let status = loop {
        match child.try_wait() {
            Ok(Some(st)) => break st,
            Ok(None) => {
                if std::time::Instant::now() > deadline {
                    timed_out = true;
                    let _ = child.kill();
                    break child.wait().expect("wait for a killed worker");
                }
                std::thread::sleep(std::time::Duration::from_millis(20));
            }
            Err(e) => return ChildEnd::Harness(format!("cannot wait for the worker: {}", e)),
        }
    };
    let stdout_b = t_out.join().unwrap_or_default();
    let stderr_b = t_err.join().unwrap_or_default();
    if timed_out {
        return ChildEnd::Crashed(format!("killed after {} s without finishing (a library call does not return and the worker's own watchdog did not fire)", worker_time_limit(spec).as_secs()));
    }
    let stdout = String::from_utf8_lossy(&stdout_b);
    if status.success() {
        match stdout.lines().find_map(|l| l.strip_prefix("RESULT ")) {
            Some(j) => match serde_json::from_str::<WorkOut>(j) {
                Ok(w) => ChildEnd::Ok(w),
                Err(e) => ChildEnd::Harness(format!("worker output does not parse: {}", e)),
            },
            None => ChildEnd::Harness("worker printed no RESULT line".into()),
        }
    } else if status.code() == Some(2) {
        ChildEnd::Harness(String::from_utf8_lossy(&stderr_b).lines().last().unwrap_or("").to_string())
    } else {
        use std::os::unix::process::ExitStatusExt;
        let how = match status.signal() {
            Some(s) => format!("signal {}", s),
            None => format!("exit status {:?}", status.code()),
        };
        ChildEnd::Crashed(how)
    }
}

// ---------------------------------------------------------------- replay files

fn write_replay(root: &Path, rep: &Replay) -> PathBuf {
    let dir = root.join("replays");
    let _ = std::fs::create_dir_all(&dir);
    let h = if rep.event_log_hash.len() >= 8 { &rep.event_log_hash[..8] } else { "crash000" };
    let name = format!("{}-{}-{}-s{}-r{}-{}.json", rep.property, rep.layer, rep.world, rep.seed, rep.run_index, h);
    let path = dir.join(name);
    std::fs::write(&path, serde_json::to_string_pretty(rep).unwrap()).expect("cannot write replay file");
    path
}

/// Re-executes a replay file in this process. Returns the failures of the run.
pub fn run_replay(rep: &Replay) -> Result<(Vec<Fail>, u64), String> {
    match rep.layer.as_str() {
        "L1" => {
            let def = l1::world_by_name(&rep.world).ok_or_else(|| format!("unknown world {}", rep.world))?;
            let mut env = Env::new();
            Ok(l1::execute(def, &rep.config, &rep.ops, &mut env))
        }
        "L2" => {
            let def = l2::scen_by_name(&rep.world).ok_or_else(|| format!("unknown scenario {}", rep.world))?;
            let o = l2::run(def, &rep.config, l2::Chooser::replay(rep.tape.clone()));
            Ok((o.fails, o.log_hash))
        }
        #[cfg(feature = "l3")]
        "L3" => {
            let def = l3::scen_by_name(&rep.world).ok_or_else(|| format!("unknown scenario {}", rep.world))?;
            l3::install_sched_hook();
            let tr = l3::Trace { decisions: rep.tape.clone(), draws: rep.ops.iter().map(|o| o.c).collect() };
            Ok(l3::replay(def, &rep.config, &tr))
        }
        other => Err(format!("unknown layer {}", other)),
    }
}

fn load_replay(path: &str) -> Result<Replay, String> {
    let s = std::fs::read_to_string(path).map_err(|e| format!("cannot read {}: {}", path, e))?;
    serde_json::from_str(&s).map_err(|e| format!("{} is not a replay file: {}", path, e))
}

/// child side of `replay`
pub fn cmd_replay_inproc(path: &str) -> i32 {
    start_watchdog(20);
    heartbeat();
    let rep = match load_replay(path) {
        Ok(r) => r,
        Err(e) => {
            eprintln!("harness error: {}", e);
            return 2;
        }
    };
    if rep.runner == "range" {
        // a crash that only shows up after earlier runs on the same thread: re-run the range
        let spec = WorkSpec {
            layer: rep.layer.clone(),
            name: rep.world.clone(),
            seed: rep.seed,
            first_run: rep.run_index,
            runs: rep.minimised_from_ops as u64,
            gate: rep.property.clone(),
            threads: 1,
            over: rep.config.clone(),
            stop_on_first: true,
            max_found: 1,
            idx_dir: None,
            oplog: None,
            skip: vec![],
        };
        return match run_worker(&spec) {
            Ok(w) => {
                println!("replay {}: range of {} runs executed, {} violating run(s)", path, w.runs, w.found.len());
                if w.found.is_empty() {
                    0
                } else {
                    1
                }
            }
            Err(e) => {
                eprintln!("harness error: {}", e);
                2
            }
        };
    }
    match run_replay(&rep) {
        Err(e) => {
            eprintln!("harness error: {}", e);
            2
        }
        Ok((fails, hash)) => {
            println!("replay {}: layer={} world={} ops={} choices={} event_log_hash={:016x} (recorded {})", path, rep.layer, rep.world, rep.ops.len(), rep.tape.len(), hash, rep.event_log_hash);
            for f in &fails {
                println!("  oracle {}:{} at op {}: {}", f.prop, f.oracle, f.at_op, f.msg);
            }
            if fails.iter().any(|f| f.prop == rep.property) {
                1
            } else {
                0
            }
        }
    }
}

/// `simctl replay <file>`: re-executes the file in a fresh child process.
pub fn cmd_replay(path: &str) -> i32 {
    let rep = match load_replay(path) {
        Ok(r) => r,
        Err(e) => {
            eprintln!("harness error: {}", e);
            return 2;
        }
    };
    if rep.runner == "miri" {
        let root = self_exe().parent().and_then(|p| p.parent()).and_then(|p| p.parent()).and_then(|p| p.parent()).map(|p| p.to_path_buf()).unwrap_or_else(|| PathBuf::from("/verif"));
        return replay_under_miri(&root, path, &rep);
    }
    let o = match output_with_timeout(Command::new(bin_for_runner(&rep.runner)).arg("replay-inproc").arg(path), 180) {
        Ok(o) => o,
        Err(e) => {
            eprintln!("harness error: cannot spawn child: {}", e);
            return 2;
        }
    };
    print!("{}", String::from_utf8_lossy(&o.stdout));
    match o.status.code() {
        Some(0) => {
            println!("replay passes: property {} holds on this trace", rep.property);
            0
        }
        Some(1) => {
            println!("VIOLATION property={} replay={}", rep.property, path);
            1
        }
        Some(2) => {
            eprint!("{}", String::from_utf8_lossy(&o.stderr));
            2
        }
        _ => {
            use std::os::unix::process::ExitStatusExt;
            println!("replay {}: the process died ({:?}, signal {:?}) while executing the trace", path, o.status.code(), o.status.signal());
            println!("VIOLATION property={} replay={}", rep.property, path);
            1
        }
    }
}

/// child side of minimisation: prints `MINIMISED <replay json>`
pub fn cmd_minimise_inproc(path: &str) -> i32 {
    // a candidate trace may make a library call hang (mutated trees): every candidate execution
    // beats, the watchdog turns a hang into an abort and the parent keeps the unminimised trace
    start_watchdog(20);
    heartbeat();
    let rep = match load_replay(path) {
        Ok(r) => r,
        Err(e) => {
            eprintln!("harness error: {}", e);
            return 2;
        }
    };
    let mut out = rep.clone();
    match rep.layer.as_str() {
        "L1" => {
            let def = match l1::world_by_name(&rep.world) {
                Some(d) => d,
                None => return 2,
            };
            let mut env = Env::new();
            let (cfg, ops) = l1::minimise(def, &rep.config, &rep.ops, &rep.property, &rep.oracle, &mut env, 2000);
            let (fails, h1) = l1::execute(def, &cfg, &ops, &mut env);
            let (_, h2) = l1::execute(def, &cfg, &ops, &mut env);
            if h1 != h2 {
                eprintln!("harness error: replay is not deterministic");
                return 2;
            }
            let f = match fails.iter().find(|f| f.prop == rep.property && f.oracle == rep.oracle) {
                Some(f) => f,
                None => {
                    eprintln!("harness error: minimised trace lost the violation");
                    return 2;
                }
            };
            out.config = cfg;
            out.ops_readable = l1::render_ops(def, &ops);
            out.ops = ops;
            out.message = f.msg.clone();
            out.event_log_hash = format!("{:016x}", h1);
        }
        "L2" => {
            let def = match l2::scen_by_name(&rep.world) {
                Some(d) => d,
                None => return 2,
            };
            let tape = l2::minimise(def, &rep.config, &rep.tape, &rep.property, &rep.oracle, 400);
            let o1 = l2::run(def, &rep.config, l2::Chooser::replay(tape.clone()));
            let o2 = l2::run(def, &rep.config, l2::Chooser::replay(tape.clone()));
            if o1.log_hash != o2.log_hash {
                eprintln!("harness error: replay is not deterministic");
                return 2;
            }
            let f = match o1.fails.iter().find(|f| f.prop == rep.property && f.oracle == rep.oracle) {
                Some(f) => f,
                None => {
                    eprintln!("harness error: minimised tape lost the violation");
                    return 2;
                }
            };
            out.tape = tape;
            out.message = f.msg.clone();
            out.event_log_hash = format!("{:016x}", o1.log_hash);
        }
        #[cfg(feature = "l3")]
        "L3" => {
            let def = match l3::scen_by_name(&rep.world) {
                Some(d) => d,
                None => return 2,
            };
            l3::install_sched_hook();
            let tr = l3::Trace { decisions: rep.tape.clone(), draws: rep.ops.iter().map(|o| o.c).collect() };
            let t = l3::minimise(def, &rep.config, &tr, &rep.property, &rep.oracle, 300);
            let (f1, h1) = l3::replay(def, &rep.config, &t);
            let (_, h2) = l3::replay(def, &rep.config, &t);
            if h1 != h2 {
                eprintln!("harness error: replay is not deterministic");
                return 2;
            }
            let f = match f1.iter().find(|f| f.prop == rep.property && f.oracle == rep.oracle) {
                Some(f) => f,
                None => {
                    eprintln!("harness error: minimised schedule lost the violation");
                    return 2;
                }
            };
            out.tape = t.decisions;
            out.ops = t.draws.iter().map(|d| Op::new(0, 0, 0, *d)).collect();
            out.message = f.msg.clone();
            out.event_log_hash = format!("{:016x}", h1);
        }
        _ => return 2,
    }
    println!("MINIMISED {}", serde_json::to_string(&out).unwrap());
    0
}

fn tmp_dir(root: &Path) -> PathBuf {
    let d = root.join("replays").join("tmp").join(format!("p{}", std::process::id()));
    let _ = std::fs::create_dir_all(&d);
    d
}

/// Minimises in a child process; falls back to the unminimised trace if the child fails.
fn minimise_via_child(root: &Path, rep: &Replay) -> Result<Replay, String> {
    let tmp = tmp_dir(root).join("to-minimise.json");
    std::fs::write(&tmp, serde_json::to_string(rep).unwrap()).map_err(|e| e.to_string())?;
    let o = output_with_timeout(Command::new(bin_for_runner(&rep.runner)).arg("minimise-inproc").arg(&tmp), 300).map_err(|e| e.to_string())?;
    if o.status.code() == Some(2) {
        return Err(String::from_utf8_lossy(&o.stderr).lines().last().unwrap_or("minimiser failed").to_string());
    }
    let stdout = String::from_utf8_lossy(&o.stdout);
    let min: Replay = match stdout.lines().find_map(|l| l.strip_prefix("MINIMISED ")) {
        Some(j) => serde_json::from_str(j).map_err(|e| e.to_string())?,
        None => return Ok(rep.clone()), // the minimiser itself died: keep the original trace
    };
    // The minimiser runs many executions in one process; after executions that panicked or
    // corrupted memory its verdicts can be off. What gets reported must fail in a fresh process:
    // otherwise the recorded, unminimised trace is reported instead.
    let probe = tmp_dir(root).join("minimised-probe.json");
    std::fs::write(&probe, serde_json::to_string(&min).unwrap()).map_err(|e| e.to_string())?;
    match output_with_timeout(Command::new(bin_for_runner(&rep.runner)).arg("replay-inproc").arg(&probe), 180) {
        Ok(o) if o.status.code() == Some(0) => {
            println!("note: the minimised trace does not fail in a fresh process; reporting the recorded trace instead");
            Ok(rep.clone())
        }
        _ => Ok(min),
    }
}

/// does the trace kill the process (or trip a C01 oracle)?
fn trace_crashes(root: &Path, rep: &Replay) -> bool {
    let tmp = tmp_dir(root).join("crash-cand.json");
    if std::fs::write(&tmp, serde_json::to_string(rep).unwrap()).is_err() {
        return false;
    }
    match output_with_timeout(Command::new(bin_for_runner(&rep.runner)).arg("replay-inproc").arg(&tmp), 180) {
        Ok(o) => !matches!(o.status.code(), Some(0) | Some(2)),
        Err(_) => false,
    }
}

/// A worker died. Find the run, log its trace, minimise it, write the replay.
fn triage_crash(root: &Path, bin: &Path, spec: &WorkSpec, how: &str, minimise: bool) -> Option<(PathBuf, u64)> {
    let idx_dir = spec.idx_dir.clone()?;
    let mut cands: Vec<u64> = Vec::new();
    if let Ok(rd) = std::fs::read_dir(&idx_dir) {
        for e in rd.flatten() {
            if let Ok(b) = std::fs::read(e.path()) {
                if b.len() >= 8 {
                    cands.push(u64::from_le_bytes(b[..8].try_into().unwrap()));
                }
            }
        }
    }
    cands.sort_unstable();
    cands.dedup();
    for r in cands {
        let oplog = tmp_dir(root).join("oplog.txt");
        let _ = std::fs::remove_file(&oplog);
        let single = WorkSpec { first_run: r, runs: 1, threads: 1, idx_dir: None, oplog: Some(oplog.to_string_lossy().to_string()), stop_on_first: true, ..spec.clone() };
        match spawn_worker(bin, &single) {
            ChildEnd::Crashed(how2) => {
                let text = std::fs::read_to_string(&oplog).unwrap_or_default();
                let mut rep = Replay {
                    property: "C01".into(),
                    oracle: "process-crash".into(),
                    layer: spec.layer.clone(),
                    world: spec.name.clone(),
                    seed: spec.seed,
                    run_index: r,
                    config: Cfg::new(),
                    ops: vec![],
                    ops_readable: vec![],
                    message: format!("the process died ({}) inside a library call on a contract-respecting history: memory was corrupted before any oracle could run", how2),
                    event_log_hash: "crash".into(),
                    minimised_from_ops: 0,
                    runner: if bin == bin_for("checked").as_path() && bin != self_exe().as_path() { "checked".into() } else { "release".into() },
                    tape: vec![],
                };
                if spec.layer == "L1" {
                    let def = l1::world_by_name(&spec.name)?;
                    rep.config = l1::draw_run_cfg(def, spec.seed, r, &spec.over).0;
                    for line in text.lines() {
                        let v: Vec<u64> = line.split_whitespace().filter_map(|x| x.parse().ok()).collect();
                        if v.len() == 4 {
                            rep.ops.push(Op::new(v[0] as u16, v[1] as u32, v[2] as u32, v[3]));
                        }
                    }
                    rep.minimised_from_ops = rep.ops.len();
                    // ddmin with child processes; a dying child counts as still failing
                    let mut budget = if minimise { 150 } else { 0 };
                    let mut n = 2usize;
                    let t_min = Instant::now();
                    while rep.ops.len() >= 2 && budget > 0 && t_min.elapsed().as_secs() < 120 {
                        let chunk = (rep.ops.len() + n - 1) / n;
                        let mut reduced = false;
                        let mut start = 0;
                        while start < rep.ops.len() && budget > 0 && t_min.elapsed().as_secs() < 120 {
                            let end = (start + chunk).min(rep.ops.len());
                            let mut cand = rep.clone();
                            cand.ops = [&rep.ops[..start], &rep.ops[end..]].concat();
                            budget -= 1;
                            if !cand.ops.is_empty() && trace_crashes(root, &cand) {
                                rep = cand;
                                n = (n - 1).max(2);
                                reduced = true;
                            } else {
                                start = end;
                            }
                        }
                        if !reduced {
                            if chunk <= 1 {
                                break;
                            }
                            n = (n * 2).min(rep.ops.len());
                        }
                    }
                    rep.ops_readable = l1::render_ops(def, &rep.ops);
                } else if spec.layer == "L2" {
                    let def = l2::scen_by_name(&spec.name)?;
                    rep.config = l2::draw_run_cfg(def, spec.seed, r, &spec.over).0;
                    rep.tape = text.lines().filter_map(|l| l.trim().parse().ok()).collect();
                    rep.minimised_from_ops = rep.tape.len();
                } else {
                    #[cfg(feature = "l3")]
                    {
                        let def = l3::scen_by_name(&spec.name)?;
                        rep.config = l3::draw_run_cfg(def, spec.seed, r, &spec.over).0;
                        for l in text.lines() {
                            if let Some(d) = l.strip_prefix("d ") {
                                if let Ok(v) = d.trim().parse::<u32>() {
                                    rep.tape.push(v);
                                }
                            } else if let Some(d) = l.strip_prefix("r ") {
                                if let Ok(v) = d.trim().parse::<u64>() {
                                    rep.ops.push(Op::new(0, 0, 0, v));
                                }
                            }
                        }
                        rep.minimised_from_ops = rep.tape.len();
                    }
                }
                if !trace_crashes(root, &rep) {
                    eprintln!("note: crash of run {} ({}) did not reproduce from its logged trace", r, how);
                    continue;
                }
                return Some((write_replay(root, &rep), r));
            }
            _ => continue,
        }
    }
    // no single run reproduces the crash on its own: damage done by an earlier run on the
    // same thread. Fall back to the whole range, single-threaded.
    let idx2 = tmp_dir(root).join("idx-range");
    let _ = std::fs::remove_dir_all(&idx2);
    let _ = std::fs::create_dir_all(&idx2);
    let seq = WorkSpec { threads: 1, idx_dir: Some(idx2.to_string_lossy().to_string()), oplog: None, ..spec.clone() };
    if let ChildEnd::Crashed(how2) = spawn_worker(bin, &seq) {
        let last = std::fs::read(idx2.join("t0")).ok().filter(|b| b.len() >= 8).map(|b| u64::from_le_bytes(b[..8].try_into().unwrap())).unwrap_or(spec.first_run + spec.runs - 1);
        let rep = Replay {
            property: "C01".into(),
            oracle: "process-crash".into(),
            layer: spec.layer.clone(),
            world: spec.name.clone(),
            seed: spec.seed,
            run_index: spec.first_run,
            config: spec.over.clone(),
            ops: vec![],
            ops_readable: vec![],
            message: format!("the process died ({}) while executing runs {}..={} of {} {} on one thread; no single run reproduces it alone (memory corrupted by an earlier run)", how2, spec.first_run, last, spec.layer, spec.name),
            event_log_hash: "crash".into(),
            minimised_from_ops: (last + 1 - spec.first_run) as usize,
            runner: "range".into(),
            tape: vec![],
        };
        if trace_crashes(root, &rep) {
            return Some((write_replay(root, &rep), last));
        }
    }
    None
}

// ---------------------------------------------------------------- check

/// the binary of the build profile a replay file was recorded with
fn bin_for_runner(runner: &str) -> PathBuf {
    if runner == "checked" {
        bin_for("checked")
    } else {
        self_exe()
    }
}

fn bin_for(profile: &str) -> PathBuf {
    let me = self_exe();
    // .../target/<profile>/simctl
    let target = me.parent().and_then(|p| p.parent()).map(|p| p.to_path_buf()).unwrap_or_else(|| PathBuf::from("/verif/sim/target"));
    let cand = target.join(profile).join("simctl");
    if cand.exists() {
        cand
    } else {
        me
    }
}

struct Agg {
    evaluations: u64,
    nontrivial: u64,
    states: u64,
    transitions: u64,
    faults: BTreeMap<String, u64>,
    probes: BTreeMap<String, u64>,
    notes: BTreeMap<String, u64>,
    samples: Vec<serde_json::Value>,
    sim_time_ms: u64,
    ops: u64,
    layers: BTreeMap<String, serde_json::Value>,
}

pub fn cmd_check(root: &Path, prop: &str, tier: &str, seed: u64, threads: usize) -> i32 {
    let t0 = Instant::now();
    let mut items = plan(prop);
    if let Ok(only) = std::env::var("SIMCTL_ONLY_LAYER") {
        // development aid: restrict a check to one layer
        items.retain(|i| i.layer == only);
    }
    if items.is_empty() {
        eprintln!("harness error: no check is registered for property {}", prop);
        return 2;
    }
    let known = load_known(root);
    let mut violations = 0u32;
    let mut known_hits = 0u32;
    let mut reported_sigs: Vec<String> = Vec::new();
    let mut agg = Agg {
        evaluations: 0,
        nontrivial: 0,
        states: 0,
        transitions: 0,
        faults: BTreeMap::new(),
        probes: BTreeMap::new(),
        notes: BTreeMap::new(),
        samples: Vec::new(),
        sim_time_ms: 0,
        ops: 0,
        layers: BTreeMap::new(),
    };
    let tmp = tmp_dir(root);

    // 1. regression inputs: committed replays of this property must pass
    let regress = root.join("replays").join("regress");
    if let Ok(rd) = std::fs::read_dir(&regress) {
        let mut files: Vec<PathBuf> = rd.flatten().map(|e| e.path()).filter(|p| p.extension().map(|x| x == "json").unwrap_or(false)).collect();
        files.sort();
        let mut n = 0;
        for f in files {
            let rep = match load_replay(&f.to_string_lossy()) {
                Ok(r) => r,
                Err(_) => continue,
            };
            if rep.property != prop {
                continue;
            }
            n += 1;
            let o = output_with_timeout(Command::new(bin_for_runner(&rep.runner)).arg("replay-inproc").arg(&f), 180);
            match o.map(|o| o.status.code()) {
                Ok(Some(0)) => {}
                Ok(Some(2)) | Err(_) => {
                    eprintln!("harness error: cannot replay {}", f.display());
                    return 2;
                }
                _ => {
                    println!("violation: regression replay {} fails again: {}", f.display(), rep.message);
                    println!("VIOLATION property={} replay={}", prop, f.display());
                    violations += 1;
                }
            }
        }
        agg.layers.insert("regression_replays".into(), json!({ "files": n }));
    }

    // 2. seeded search
    'items: for item in &items {
        if violations > 0 {
            break;
        }
        let total = if tier == "thorough" { item.thorough } else { item.quick };
        let mut over = Cfg::new();
        for (k, v) in &item.over {
            over.insert(k.to_string(), *v);
        }
        // C01 additionally runs half of its L1 budget on a build with debug assertions and
        // overflow checks (the crate's own internal checks become oracles there)
        let profiles: Vec<(&str, u64, u64)> = if prop == "C01" && item.layer == "L1" && bin_for("checked") != self_exe() {
            vec![("release", 0, total / 2), ("checked", total / 2, total - total / 2)]
        } else {
            vec![("release", 0, total)]
        };
        let mut crash_skips = 0u32;
        let mut skip_runs: Vec<u64> = Vec::new();
        let mut item_runs = 0u64;
        let mut item_nontrivial = 0u64;
        let mut item_states = 0u64;
        let mut item_transitions = 0u64;
        for (profile, offset, budget) in profiles {
            let bin = bin_for(profile);
            let mut first_run = offset;
            let mut remaining = budget;
            while remaining > 0 {
                let idx_dir = tmp.join("idx");
                let _ = std::fs::remove_dir_all(&idx_dir);
                let _ = std::fs::create_dir_all(&idx_dir);
                let spec = WorkSpec {
                    layer: item.layer.to_string(),
                    name: item.name.to_string(),
                    seed,
                    first_run,
                    runs: remaining,
                    gate: prop.to_string(),
                    threads,
                    over: over.clone(),
                    stop_on_first: true,
                    max_found: 64,
                    idx_dir: Some(idx_dir.to_string_lossy().to_string()),
                    oplog: None,
                    skip: skip_runs.clone(),
                };
                let out = match spawn_worker(&bin, &spec) {
                    ChildEnd::Ok(o) => o,
                    ChildEnd::Harness(e) => {
                        eprintln!("harness error: {}", e);
                        return 2;
                    }
                    ChildEnd::Crashed(how) => {
                        println!("note: a simulation worker died ({}) in {} {}", how, item.layer, item.name);
                        // violating runs the worker had noted before it died: re-execute them alone
                        let noted: Vec<u64> = std::fs::read_to_string(idx_dir.join("found")).unwrap_or_default().lines().filter_map(|l| l.trim().parse().ok()).collect();
                        let mut rescued: Vec<FoundOut> = Vec::new();
                        if prop != "C01" {
                            let mut seen: Vec<u64> = Vec::new();
                            for r in noted {
                                if seen.contains(&r) || seen.len() >= 4 {
                                    continue;
                                }
                                seen.push(r);
                                let one = WorkSpec { first_run: r, runs: 1, threads: 1, idx_dir: None, skip: vec![], ..spec.clone() };
                                if let ChildEnd::Ok(o) = spawn_worker(&bin, &one) {
                                    rescued.extend(o.found);
                                }
                            }
                        }
                        if !rescued.is_empty() {
                            println!("note: {} violating run(s) noted by the worker before it died were re-executed alone", rescued.len());
                            WorkOut { found: rescued, ..Default::default() }
                        } else {
                        crash_skips += 1;
                        if prop != "C01" && crash_skips > 6 {
                            println!("note: more than 6 crashing runs in {} {}: the rest of this item is skipped (crashes are a C01 matter)", item.layer, item.name);
                            break;
                        }
                        match triage_crash(root, &bin, &spec, &how, prop == "C01") {
                            Some((path, run)) => {
                                if prop == "C01" {
                                    println!("violation: the process died inside a library call (memory corruption) in {} {} run {}", item.layer, item.name, run);
                                    println!("VIOLATION property=C01 replay={}", path.display());
                                    violations += 1;
                                    break 'items;
                                }
                                println!("note: run {} of {} {} crashes the process; that is a C01 matter (replay {}), skipped here", run, item.layer, item.name, path.display());
                                *agg.notes.entry("C01:process-crash".into()).or_insert(0) += 1;
                                // the batch died with everything its other threads had found: run the
                                // same range again without the crashing run
                                skip_runs.push(run);
                                continue;
                            }
                            None => {
                                eprintln!("harness error: a worker died ({}) and the crash could not be isolated", how);
                                return 2;
                            }
                        }
                        }
                    }
                };
                agg.evaluations += out.runs;
                item_runs += out.runs;
                item_nontrivial = item_nontrivial.max(out.nontrivial);
                item_states = item_states.max(out.states);
                item_transitions = item_transitions.max(out.transitions);
                agg.sim_time_ms += out.sim_time_ms;
                agg.ops += out.ops;
                for (k, v) in &out.faults {
                    *agg.faults.entry(k.clone()).or_insert(0) += v;
                }
                for (k, v) in &out.probes {
                    *agg.probes.entry(k.clone()).or_insert(0) += v;
                }
                for (k, v) in &out.notes {
                    *agg.notes.entry(k.clone()).or_insert(0) += v;
                }
                if agg.samples.len() < 4 {
                    agg.samples.extend(out.samples.iter().take(1).cloned());
                }
                if out.found.is_empty() {
                    break;
                }
                // triage every violating run of this batch (lowest run index first)
                let mut new_violation = false;
                for f in &out.found {
                    let first = match f.fails.iter().find(|x| x.prop == prop || x.prop == "HARNESS") {
                        Some(x) => x.clone(),
                        None => continue,
                    };
                    if first.prop == "HARNESS" {
                        eprintln!("harness error in {} {} run {}: {}", item.layer, item.name, f.run_index, first.msg);
                        return 2;
                    }
                    let raw = Replay {
                        property: prop.to_string(),
                        oracle: first.oracle.clone(),
                        layer: item.layer.to_string(),
                        world: item.name.to_string(),
                        seed,
                        run_index: f.run_index,
                        config: f.cfg.clone(),
                        ops: f.ops.clone(),
                        ops_readable: vec![],
                        message: first.msg.clone(),
                        event_log_hash: String::new(),
                        minimised_from_ops: f.ops.len().max(f.tape.len()),
                        runner: profile.to_string(),
                        tape: f.tape.clone(),
                    };
                    let rep = match minimise_via_child(root, &raw) {
                        Ok(r) => r,
                        Err(e) => {
                            eprintln!("harness error: {}", e);
                            return 2;
                        }
                    };
                    let sig = if item.layer == "L1" { signature(item.name, &rep.oracle, &rep.config, &rep.ops_readable) } else { format!("{}/{}", item.name, rep.oracle) };
                    if let Some(k) = known.open.iter().find(|k| k.property == prop && k.signature == sig) {
                        if !reported_sigs.contains(&sig) {
                            println!("KNOWN-FINDING: property={} {} [{}]", prop, k.what, sig);
                            reported_sigs.push(sig.clone());
                            known_hits += 1;
                        }
                        continue;
                    }
                    let path = write_replay(root, &rep);
                    println!("violation: {} [{}] signature {}", rep.message, rep.oracle, sig);
                    println!("VIOLATION property={} replay={}", prop, path.display());
                    violations += 1;
                    new_violation = true;
                    break;
                }
                if new_violation {
                    break;
                }
                // only known findings in this batch: continue after the last triaged run
                let last = out.found.iter().map(|f| f.run_index).max().unwrap();
                let done = last + 1 - first_run;
                if done >= remaining {
                    break;
                }
                remaining -= done;
                first_run = last + 1;
            }
            if violations > 0 {
                break;
            }
        }
        agg.nontrivial += item_nontrivial;
        agg.states += item_states;
        agg.transitions += item_transitions;
        agg.layers.insert(
            format!("{}:{}", item.layer, item.name),
            json!({ "runs": item_runs, "distinct_nontrivial": item_nontrivial, "distinct_states": item_states, "distinct_transitions": item_transitions,
                    "config_override": item.over.iter().map(|(k, v)| format!("{}={}", k, v)).collect::<Vec<_>>() }),
        );
    }
    if prop == "C01" && violations == 0 && std::env::var("SIMCTL_ONLY_LAYER").map(|l| l == "L4").unwrap_or(true) {
        let (v, j) = run_l4(root, tier, seed);
        violations += v;
        agg.layers.insert("L4:miri".into(), j);
    }
    let _ = std::fs::remove_dir_all(&tmp);

    for (k, v) in &agg.notes {
        println!("note: {} run(s) tripped oracle {} (not gating here; see that property's check)", v, k);
    }

    let wall = t0.elapsed().as_secs_f64();
    let evidence = json!({
        "property_id": prop,
        "tier": tier,
        "seed": seed,
        "level": "exploration",
        "coverage": {
            "evaluations": agg.evaluations,
            "distinct_nontrivial": agg.nontrivial,
            "rule": "runs are drawn swarm-style from VERIF_SEED (one xoshiro stream per run index, per world/scenario); a run is non-trivial if at least one poll returned Pending and at least one fault kind fired (L3: at least one preemption); distinct = distinct hash of the run's operation-kind sequence (L1) / executor decision sequence (L2) / thread-schedule decision sequence (L3) among non-trivial runs, counted per world or scenario (maximum over its worker batches) and summed over worlds",
            "samples": agg.samples,
            "states": agg.states,
            "transitions": agg.transitions,
            "runs_per_hour": if wall > 0.0 { (agg.evaluations as f64 / wall * 3600.0) as u64 } else { 0 },
            "operations_executed": agg.ops,
            "sim_time_ms_covered": agg.sim_time_ms,
            "fault_fired": agg.faults,
            "probes": agg.probes,
            "layers": agg.layers,
            "other_oracle_notes": agg.notes,
            "components": {
                "real": ["futures-intrusive (all primitives; local, parking_lot and shared flavours; the crate's TimerService is the L2 timer wheel)", "futures-core", "lock_api", "parking_lot"],
                "stub": ["executor (simulator decides every poll, drop, kill, wake delivery)", "thread scheduler (shuttle runtime driven by the simulator's seeded Scheduler)", "internal lock in L3 (SimRawMutex behind lock_api::RawMutex)", "wakers (simulator-owned, logging)", "clock (SimClock behind the crate's Clock trait; MockClock in some configurations)"]
            },
            "known_findings_hit": known_hits,
        },
        "assumptions": [
            "sampling, not enumeration: bounded histories (<= 96 ops plus an optional prefill burst, <= 16 live futures per kind; L2: <= 6 tasks), sequentially consistent execution",
            "guarded hooks (cfg futures_intrusive_verif) are read-only",
        ],
        "wall_s": wall,
        "violations": violations,
    });
    let evdir = root.join("evidence");
    let _ = std::fs::create_dir_all(&evdir);
    if let Err(e) = std::fs::write(evdir.join(format!("{}.json", prop)), serde_json::to_string_pretty(&evidence).unwrap()) {
        eprintln!("harness error: cannot write evidence: {}", e);
        return 2;
    }
    println!("check {} tier={} seed={} evaluations={} distinct_nontrivial={} states={} wall={:.1}s violations={} known={}", prop, tier, seed, agg.evaluations, agg.nontrivial, agg.states, wall, violations, known_hits);
    if violations > 0 {
        1
    } else {
        0
    }
}

// ---------------------------------------------------------------- self-tests

/// `simctl selftest determinism`: every world / scenario, the same seeds executed in separate
/// processes at worker counts 1, 5 and 16; run counts, operation counts and the aggregate of
/// the per-run event-log hashes must be identical. A divergence is a harness bug (exit 2).
pub fn cmd_selftest_determinism(runs: u64, seed: u64) -> i32 {
    let mut targets: Vec<(String, String)> = Vec::new();
    for w in l1::worlds() {
        targets.push(("L1".into(), w.name.to_string()));
    }
    for s in l2::scenarios() {
        targets.push(("L2".into(), s.name.to_string()));
    }
    #[cfg(feature = "l3")]
    for s in l3::scenarios() {
        targets.push(("L3".into(), s.name.to_string()));
    }
    let mut bad = 0;
    let bins: Vec<PathBuf> = {
        let mut v = vec![self_exe()];
        let c = bin_for("checked");
        if c != self_exe() {
            v.push(c);
        }
        v
    };
    for (layer, name) in &targets {
        for bin in &bins {
            if layer != "L1" && bin != &self_exe() {
                continue;
            }
            let mut sigs: Vec<(u64, u64, u64)> = Vec::new();
            for threads in [1usize, 5, 16] {
                let spec = WorkSpec {
                    layer: layer.clone(),
                    name: name.clone(),
                    seed,
                    first_run: 0,
                    runs,
                    gate: "none".into(),
                    threads,
                    over: Cfg::new(),
                    stop_on_first: false,
                    max_found: 0,
                    idx_dir: None,
                    oplog: None,
            skip: vec![],
                };
                match spawn_worker(bin, &spec) {
                    ChildEnd::Ok(o) => sigs.push((o.runs, o.ops, o.log_hash_xor)),
                    ChildEnd::Crashed(h) => {
                        eprintln!("harness error: worker died ({}) in {} {}", h, layer, name);
                        return 2;
                    }
                    ChildEnd::Harness(e) => {
                        eprintln!("harness error: {}", e);
                        return 2;
                    }
                }
            }
            let same = sigs.windows(2).all(|w| w[0] == w[1]);
            println!("determinism {} {} [{}]: {} runs x3 processes (1/5/16 workers): runs={} ops={} hash={:016x} {}", layer, name, bin.parent().and_then(|p| p.file_name()).map(|s| s.to_string_lossy().to_string()).unwrap_or_default(), runs, sigs[0].0, sigs[0].1, sigs[0].2, if same { "identical" } else { "DIVERGED" });
            if !same {
                println!("  {:?}", sigs);
                bad += 1;
            }
        }
    }
    if bad > 0 {
        eprintln!("harness error: {} target(s) are not deterministic", bad);
        2
    } else {
        println!("determinism self-test passed for {} targets", targets.len());
        0
    }
}

// ---------------------------------------------------------------- L4: Miri

fn miri_cmd(root: &Path, flags: &str, args: &[&str]) -> Command {
    let mut c = Command::new("cargo");
    c.current_dir(root.join("sim"));
    c.args(["+nightly", "miri", "run", "--offline", "--no-default-features", "--"]);
    c.args(args);
    c.env("MIRIFLAGS", flags);
    c.env("CARGO_NET_OFFLINE", "true");
    c
}

pub fn miri_available(root: &Path) -> bool {
    miri_cmd(root, "", &["help"]).output().map(|o| String::from_utf8_lossy(&o.stderr).contains("usage: simctl")).unwrap_or(false)
}

/// Runs the Miri tier of C01. Returns (violations, evidence json).
fn run_l4(root: &Path, tier: &str, seed: u64) -> (u32, serde_json::Value) {
    if !miri_available(root) {
        println!("note: cargo +nightly miri is not usable here; the L4 (Miri) cross-check is skipped");
        return (0, json!({"skipped": "miri not available"}));
    }
    let mut violations = 0u32;
    // (b) real threads on the parking_lot flavours, Miri's seeded scheduler
    let nseeds = if tier == "thorough" { 64 } else { 12 };
    let flags = format!("-Zmiri-many-seeds=0..{} -Zmiri-preemption-rate=0.1", nseeds);
    let o = miri_cmd(root, &flags, &["miri-threads"]).output();
    let mut thread_ok = 0;
    match o {
        Ok(o) => {
            let out = String::from_utf8_lossy(&o.stdout).to_string() + &String::from_utf8_lossy(&o.stderr);
            thread_ok = out.matches("thread scenario ok").count();
            if !o.status.success() || out.contains("Undefined Behavior") || out.contains("FAILED") {
                let first = out.lines().find(|l| l.contains("Undefined Behavior") || l.contains("FAILED") || l.starts_with("error")).unwrap_or("").to_string();
                let rep = Replay {
                    property: "C01".into(),
                    oracle: "miri-threads".into(),
                    layer: "L4".into(),
                    world: "miri-threads".into(),
                    seed: nseeds,
                    run_index: 0,
                    config: Cfg::new(),
                    ops: vec![],
                    ops_readable: vec![],
                    message: format!("Miri reports a problem in the real-thread scenario on the parking_lot flavours: {}", first),
                    event_log_hash: "miri0000".into(),
                    minimised_from_ops: 0,
                    runner: "miri".into(),
                    tape: vec![],
                };
                let path = write_replay(root, &rep);
                println!("violation: {}", rep.message);
                println!("VIOLATION property=C01 replay={}", path.display());
                violations += 1;
            }
        }
        Err(e) => println!("note: could not run miri: {}", e),
    }
    // (a) the simulator itself under Miri: L1 histories per world and L2 runs per scenario, one
    // process per (target, aliasing model), all in parallel. Stacked Borrows on one slice of
    // the runs, Tree Borrows on the next.
    struct Job {
        layer: &'static str,
        name: String,
        tb: bool,
        first: u64,
        runs: u64,
    }
    fn job_args(j: &Job, first: u64, runs: u64, seed: u64) -> Vec<String> {
        let mut v: Vec<String> = if j.layer == "L1" {
            vec!["l1".into(), "--world".into(), j.name.clone(), "--threads".into(), "1".into(), "--gate".into(), "C01".into()]
        } else {
            vec!["l2".into(), "--scen".into(), j.name.clone()]
        };
        v.extend(["--runs".to_string(), runs.to_string(), "--first-run".into(), first.to_string(), "--seed".into(), seed.to_string()]);
        v
    }
    fn job_ok(j: &Job, o: &std::process::Output) -> (bool, String) {
        let out = String::from_utf8_lossy(&o.stdout).to_string() + &String::from_utf8_lossy(&o.stderr);
        let clean = if j.layer == "L1" { out.contains("found: 0") } else { out.contains(" fails=0 ") };
        (o.status.success() && clean && !out.contains("Undefined Behavior"), out)
    }
    fn model_flags(tb: bool) -> &'static str {
        if tb {
            "-Zmiri-tree-borrows"
        } else {
            ""
        }
    }
    let (l1_runs, l2_runs): (u64, u64) = if tier == "thorough" { (8, 24) } else { (0, 3) };
    let mut jobs: Vec<Job> = vec![];
    if l1_runs > 0 {
        for w in l1::worlds() {
            jobs.push(Job { layer: "L1", name: w.name.to_string(), tb: false, first: 0, runs: l1_runs });
            jobs.push(Job { layer: "L1", name: w.name.to_string(), tb: true, first: l1_runs, runs: l1_runs });
        }
    }
    for sdef in l2::scenarios() {
        if tier == "thorough" {
            jobs.push(Job { layer: "L2", name: sdef.name.to_string(), tb: false, first: 0, runs: l2_runs });
            jobs.push(Job { layer: "L2", name: sdef.name.to_string(), tb: true, first: l2_runs, runs: l2_runs });
        } else {
            // quick: a few task-simulator runs per scenario, alternating the aliasing model by seed
            jobs.push(Job { layer: "L2", name: sdef.name.to_string(), tb: seed % 2 == 1, first: 0, runs: l2_runs });
        }
    }
    let mut histories = 0u64;
    let mut l2_under_miri = 0u64;
    let mut tb_runs = 0u64;
    if violations == 0 {
        let next = std::sync::atomic::AtomicUsize::new(0);
        let results: std::sync::Mutex<Vec<(usize, bool, String)>> = std::sync::Mutex::new(vec![]);
        std::thread::scope(|sc| {
            for _ in 0..16.min(jobs.len()) {
                sc.spawn(|| loop {
                    let i = next.fetch_add(1, std::sync::atomic::Ordering::SeqCst);
                    if i >= jobs.len() {
                        break;
                    }
                    let j = &jobs[i];
                    let args = job_args(j, j.first, j.runs, seed);
                    let argv: Vec<&str> = args.iter().map(|s| s.as_str()).collect();
                    let r = match miri_cmd(root, model_flags(j.tb), &argv).output() {
                        Ok(o) => {
                            let (ok, out) = job_ok(j, &o);
                            (i, ok, out)
                        }
                        Err(e) => (i, true, format!("could not run miri: {}", e)),
                    };
                    results.lock().unwrap().push(r);
                });
            }
        });
        let mut results = results.into_inner().unwrap();
        results.sort_by_key(|r| r.0);
        for (i, ok, out) in results {
            let j = &jobs[i];
            if ok {
                if j.layer == "L1" {
                    histories += j.runs;
                } else {
                    l2_under_miri += j.runs;
                }
                if j.tb {
                    tb_runs += j.runs;
                }
                continue;
            }
            // find the first run Miri objects to, dump its trace natively
            let mut culprit = None;
            for r in j.first..j.first + j.runs {
                let args = job_args(j, r, 1, seed);
                let argv: Vec<&str> = args.iter().map(|s| s.as_str()).collect();
                if let Ok(o) = miri_cmd(root, model_flags(j.tb), &argv).output() {
                    if !job_ok(j, &o).0 {
                        culprit = Some(r);
                        break;
                    }
                }
            }
            let first = out.lines().find(|l| l.contains("Undefined Behavior") || l.starts_with("error")).unwrap_or("").to_string();
            let run = culprit.unwrap_or(j.first);
            let which = if j.layer == "L1" { "--world" } else { "--scen" };
            let tr = Command::new(self_exe()).args(["trace", which, &j.name, "--seed", &seed.to_string(), "--run", &run.to_string()]).output();
            let mut rep: Replay = tr.ok().and_then(|o| serde_json::from_slice(&o.stdout).ok()).unwrap_or(Replay {
                property: "C01".into(),
                oracle: "miri".into(),
                layer: j.layer.into(),
                world: j.name.clone(),
                seed,
                run_index: run,
                config: Cfg::new(),
                ops: vec![],
                ops_readable: vec![],
                message: String::new(),
                event_log_hash: "miri0000".into(),
                minimised_from_ops: 0,
                runner: "miri".into(),
                tape: vec![],
            });
            if j.tb {
                rep.config.insert("miri_tree_borrows".into(), 1);
            }
            rep.message = format!("Miri ({}) objects to run {} of {} {}: {}", if j.tb { "Tree Borrows" } else { "Stacked Borrows" }, run, j.layer, j.name, first);
            let path = write_replay(root, &rep);
            println!("violation: {}", rep.message);
            println!("VIOLATION property=C01 replay={}", path.display());
            violations += 1;
            break;
        }
    }
    (violations, json!({"thread_scenario_seeds_ok": thread_ok, "l1_histories_under_miri": histories, "l2_runs_under_miri": l2_under_miri, "of_which_tree_borrows": tb_runs, "aliasing_model": "Stacked Borrows (default) and Tree Borrows on disjoint slices of the runs"}))
}

/// `simctl replay` of a file recorded by the Miri tier: re-executed under Miri.
pub fn replay_under_miri(root: &Path, path: &str, rep: &Replay) -> i32 {
    let abs = std::fs::canonicalize(path).unwrap_or_else(|_| PathBuf::from(path));
    let o = if rep.layer == "L4" {
        let flags = format!("-Zmiri-many-seeds=0..{} -Zmiri-preemption-rate=0.1", rep.seed.max(1));
        miri_cmd(root, &flags, &["miri-threads"]).output()
    } else {
        // the replay file has to be read: isolation off for this one command
        let flags = if rep.config.get("miri_tree_borrows").copied().unwrap_or(0) != 0 { "-Zmiri-disable-isolation -Zmiri-tree-borrows" } else { "-Zmiri-disable-isolation" };
        miri_cmd(root, flags, &["replay-inproc", &abs.to_string_lossy()]).output()
    };
    match o {
        Err(e) => {
            eprintln!("harness error: cannot run miri: {}", e);
            2
        }
        Ok(o) => {
            let out = String::from_utf8_lossy(&o.stdout).to_string() + &String::from_utf8_lossy(&o.stderr);
            let bad = out.contains("Undefined Behavior") || out.contains("FAILED") || !matches!(o.status.code(), Some(0));
            for l in out.lines().filter(|l| l.contains("Undefined Behavior") || l.starts_with("replay ") || l.contains("oracle ")).take(6) {
                println!("{}", l);
            }
            if bad {
                println!("VIOLATION property={} replay={}", rep.property, path);
                1
            } else {
                println!("replay passes under Miri: property {} holds on this trace", rep.property);
                0
            }
        }
    }
}

/// `simctl selftest replayfuzz`: soundness of the oracles on *edited* histories. The minimiser
/// (and anybody replaying a trace recorded on another tree) executes operation lists that the
/// generator never produced: operations removed, repeated or reordered, ids that no longer
/// exist. On the unchanged library every such list must still be judged clean - a failure
/// here is a harness flaw (exit 2), never a finding.
pub fn cmd_selftest_replayfuzz(runs: u64, seed: u64) -> i32 {
    use crate::rng::Rng;
    use std::sync::atomic::{AtomicU64, Ordering};
    crate::core::install_panic_hook();
    let mut bad = 0u64;
    for def in l1::worlds() {
        let next = AtomicU64::new(0);
        let found: std::sync::Mutex<Vec<String>> = std::sync::Mutex::new(vec![]);
        let executed = AtomicU64::new(0);
        std::thread::scope(|sc| {
            for _ in 0..16 {
                sc.spawn(|| {
                    let mut env = crate::core::Env::new();
                    loop {
                        let r = next.fetch_add(1, Ordering::SeqCst);
                        if r >= runs {
                            break;
                        }
                        let (cfg, mut rng) = l1::draw_run_cfg(def, seed ^ 0x5eed_f022, r, &Cfg::new());
                        env.reset();
                        let ops = (def.gen_run)(&cfg, &mut rng, &mut env);
                        if !env.fails.is_empty() {
                            continue;
                        }
                        let mut ops: Vec<crate::core::Op> = ops.into_iter().chain(env.finish_ops.clone()).collect();
                        let mut frng = Rng::for_run(seed, "replayfuzz", r);
                        // three rounds of edits of the kinds the minimiser and a foreign tree produce
                        for _ in 0..3 {
                            if ops.is_empty() {
                                break;
                            }
                            match frng.below(4) {
                                0 => {
                                    // drop a random subset
                                    let keep = 30 + frng.below(60);
                                    ops.retain(|_| frng.pct(keep));
                                }
                                1 => {
                                    // drop a contiguous chunk
                                    let a = frng.below(ops.len() as u64) as usize;
                                    let b = (a + 1 + frng.below(8) as usize).min(ops.len());
                                    ops.drain(a..b);
                                }
                                2 => {
                                    // repeat an operation somewhere later
                                    let a = frng.below(ops.len() as u64) as usize;
                                    let at = a + frng.below((ops.len() - a) as u64 + 1) as usize;
                                    let o = ops[a];
                                    ops.insert(at.min(ops.len()), o);
                                }
                                _ => {
                                    // swap two neighbours
                                    if ops.len() >= 2 {
                                        let a = frng.below(ops.len() as u64 - 1) as usize;
                                        ops.swap(a, a + 1);
                                    }
                                }
                            }
                            let (fails, _) = l1::execute(def, &cfg, &ops, &mut env);
                            executed.fetch_add(1, Ordering::SeqCst);
                            if let Some(f) = fails.iter().find(|f| f.prop != "HARNESS" || f.fatal) {
                                let mut g = found.lock().unwrap();
                                if g.len() < 5 {
                                    g.push(format!("run {} cfg {:?}: {}:{} at op {}: {}\n    ops: {:?}", r, cfg, f.prop, f.oracle, f.at_op, f.msg, l1::render_ops(def, &ops)));
                                }
                                break;
                            }
                        }
                    }
                });
            }
        });
        let found = found.into_inner().unwrap();
        println!("replayfuzz {}: {} edited histories executed, {} judged violating", def.name, executed.load(Ordering::SeqCst), found.len());
        for f in &found {
            println!("  {}", f);
        }
        bad += found.len() as u64;
    }
    // L2: edited choice tapes (truncated, entries changed or removed); an exhausted tape answers 0
    for def in l2::scenarios() {
        let next = AtomicU64::new(0);
        let found: std::sync::Mutex<Vec<String>> = std::sync::Mutex::new(vec![]);
        let executed = AtomicU64::new(0);
        let l2_runs = runs / 4 + 1;
        std::thread::scope(|sc| {
            for _ in 0..16 {
                sc.spawn(|| loop {
                    let r = next.fetch_add(1, Ordering::SeqCst);
                    if r >= l2_runs {
                        break;
                    }
                    let mut rng = Rng::for_run(seed ^ 0x5eed_f022, def.name, r);
                    let cfg = (def.draw_cfg)(&mut rng);
                    let out = l2::run(def, &cfg, l2::Chooser::generate(rng));
                    if !out.fails.is_empty() {
                        continue;
                    }
                    let mut tape = out.tape;
                    let mut frng = Rng::for_run(seed, "tapefuzz", r);
                    for _ in 0..3 {
                        if tape.is_empty() {
                            break;
                        }
                        match frng.below(3) {
                            0 => tape.truncate(frng.below(tape.len() as u64) as usize),
                            1 => {
                                let a = frng.below(tape.len() as u64) as usize;
                                tape[a] = frng.below(8) as u32;
                            }
                            _ => {
                                let a = frng.below(tape.len() as u64) as usize;
                                tape.remove(a);
                            }
                        }
                        let o = l2::run(def, &cfg, l2::Chooser::replay(tape.clone()));
                        executed.fetch_add(1, Ordering::SeqCst);
                        if let Some(f) = o.fails.first() {
                            let mut g = found.lock().unwrap();
                            if g.len() < 5 {
                                g.push(format!("run {} cfg {:?}: {}:{}: {}\n    tape: {:?}", r, cfg, f.prop, f.oracle, f.msg, tape));
                            }
                            break;
                        }
                    }
                });
            }
        });
        let found = found.into_inner().unwrap();
        println!("replayfuzz {}: {} edited tapes executed, {} judged violating", def.name, executed.load(Ordering::SeqCst), found.len());
        for f in &found {
            println!("  {}", f);
        }
        bad += found.len() as u64;
    }
    // L3: edited schedules (truncated, decisions changed) and zeroed draws, tolerant replay
    #[cfg(feature = "l3")]
    {
        l3::install_sched_hook();
        for def in l3::scenarios() {
            let mut found: Vec<String> = vec![];
            let mut executed = 0u64;
            let l3_runs = runs / 40 + 1;
            for r in 0..l3_runs {
                let (cfg, _) = l3::draw_run_cfg(def, seed ^ 0x5eed_f022, r, &Cfg::new());
                let (trace, fails) = l3::record_one(def, seed ^ 0x5eed_f022, r);
                if !fails.is_empty() {
                    continue;
                }
                let mut tr = trace;
                let mut frng = Rng::for_run(seed, "schedfuzz", r);
                for _ in 0..3 {
                    if tr.decisions.is_empty() {
                        break;
                    }
                    match frng.below(3) {
                        0 => tr.decisions.truncate(frng.below(tr.decisions.len() as u64) as usize),
                        1 => {
                            let a = frng.below(tr.decisions.len() as u64) as usize;
                            tr.decisions[a] = frng.below(6) as u32;
                        }
                        _ => {
                            for d in tr.draws.iter_mut() {
                                *d = 0;
                            }
                        }
                    }
                    let (fails, _) = l3::replay(def, &cfg, &tr);
                    executed += 1;
                    if let Some(f) = fails.first() {
                        if found.len() < 5 {
                            found.push(format!("run {} cfg {:?}: {}:{}: {}\n    decisions: {:?} draws: {:?}", r, cfg, f.prop, f.oracle, f.msg, tr.decisions, tr.draws));
                        }
                        break;
                    }
                }
            }
            println!("replayfuzz {}: {} edited schedules executed, {} judged violating", def.name, executed, found.len());
            for f in &found {
                println!("  {}", f);
            }
            bad += found.len() as u64;
        }
    }
    if bad > 0 {
        eprintln!("harness error: the oracles object to edited histories on the unchanged library (see above)");
        2
    } else {
        println!("replay-fuzz self-test passed");
        0
    }
}

/// `simctl selftest probes`: every rare branch / fault kind the design cares about must
/// actually be reached by the quick budget. A probe stuck at zero fails the self-test
/// (exit 2: the workload or fault mix must change), never a check.
pub fn cmd_selftest_probes(seed: u64) -> i32 {
    let expect: &[(&str, &[&str])] = &[
        ("semaphore", &["barge", "cancel_notified", "cancel_waiting_head", "cancel_waiting_middle", "cancel_waiting_tail", "waker_swap", "waker_swap_while_notified", "woken_requeued", "handle_drop_with_pending_future", "disarm", "spurious_poll", "requeue_after_stolen_permits", "unfair_waiting_fastpath_acquire", "poll_after_completion_probe"]),
        ("mutex", &["barge", "cancel_notified", "cancel_waiting_head", "cancel_waiting_middle", "waker_swap", "waker_swap_while_notified", "woken_requeued", "requeue_after_barging", "unfair_waiting_fastpath_lock", "stale_poll_order", "reentrant_try_lock_in_waker_callback", "reentrant_try_lock_succeeded"]),
        ("event", &["set_with_pending_waiters", "reset_before_woken_waiter_polled", "completed_after_set_then_reset", "cancel_notified", "waker_swap"]),
        ("timer", &["clock_jump_past_many", "clock_jump_saturating", "delay_saturates", "delay_longer_than_u64_ms", "driver_stall", "duplicate_deadline", "cancel_registered_timer", "expired_2_or_more_in_one_check", "heap_with_3_or_more_nodes", "cancel_waiting_middle"]),
        ("mpmc", &["refill_from_parked_sender", "rendezvous_take_from_parked_sender", "stream_item", "stream_terminated", "terminated_stream_polled_again", "last_receiver_discards_buffer", "notified_receiver_found_nothing", "cancel_parked_sender", "cancel_parked_sender_middle", "close_with_pending_send", "close_with_pending_recv", "last_sender_dropped", "last_receiver_dropped", "cancel_notified", "barge"]),
        ("oneshot", &["value_received", "late_receiver_gets_none", "receive_started_after_send", "one_of_several_receivers_dropped", "last_receiver_dropped", "close_with_pending_recv", "send_with_pending_receivers"]),
        ("state_broadcast", &["latest_state_after_close", "request_older_than_latest", "request_ahead_of_channel", "send_with_pending_receivers", "last_sender_dropped", "last_receiver_dropped", "close_with_pending_recv"]),
    ];
    let mut missing = 0;
    for (world, names) in expect {
        let spec = WorkSpec { layer: "L1".into(), name: world.to_string(), seed, first_run: 0, runs: 100_000, gate: "none".into(), threads: 16, over: Cfg::new(), stop_on_first: false, max_found: 0, idx_dir: None, oplog: None, skip: vec![] };
        match spawn_worker(&self_exe(), &spec) {
            ChildEnd::Ok(o) => {
                for n in *names {
                    let c = o.faults.get(*n).copied().unwrap_or(0) + o.probes.get(*n).copied().unwrap_or(0);
                    if c == 0 {
                        println!("probe {}::{} was never reached in 100000 runs", world, n);
                        missing += 1;
                    }
                }
                println!("probes {}: {} expected, all counts: faults {:?} probes {:?}", world, names.len(), o.faults, o.probes);
            }
            _ => {
                eprintln!("harness error: worker failed for world {}", world);
                return 2;
            }
        }
    }
    if missing > 0 {
        eprintln!("harness error: {} probe(s) stuck at zero", missing);
        2
    } else {
        println!("probe self-test passed");
        0
    }
}
