//! L3 scenarios: one shuttle thread per task (`shuttle::future::block_on`), the library's
//! thread-safe / shared flavours on `SimRawMutex`. Workload amounts come from `shuttle::rand`
//! (i.e. from the scheduler's recorded draws). Bookkeeping uses plain std atomics (no
//! scheduling points of their own).

use super::{violation, violation_multi, SimRawMutex, ThreadScenDef};
use crate::clock::ClockRef;
use crate::core::{cfg_get, Cfg};
use crate::rng::Rng;
use futures_intrusive::buffer::GrowingHeapBuf;
use futures_intrusive::channel::shared as sh;
use futures_intrusive::channel::{GenericChannel, StateId};
use futures_intrusive::sync::{GenericManualResetEvent, GenericMutex, GenericSemaphore};
use futures_intrusive::timer::{GenericTimerService, Timer};
use futures_intrusive::verif::Snapshot;
use super::block_on;
use shuttle::rand::{thread_rng, Rng as _};
use shuttle::thread;
use std::future::Future;
use std::pin::Pin;
use std::sync::atomic::{AtomicBool, AtomicU64, AtomicUsize, Ordering::SeqCst};
use std::sync::{Arc, Mutex as StdMutex};
use std::task::{Context, Poll};

type M = SimRawMutex;

fn draw(n: u64) -> u64 {
    if n == 0 {
        0
    } else {
        thread_rng().gen::<u64>() % n
    }
}

/// A "timeout" without time: gives up after `left` Pending polls (re-polling itself), which
/// drops — cancels — the inner future at an arbitrary point of its life.
struct Budget<F> {
    fut: F,
    left: u32,
    polled: bool,
    /// always re-poll by itself (for waits that may legitimately never be woken)
    spin: bool,
}
fn budgeted<F: Future>(fut: F, left: u32) -> Budget<F> {
    Budget { fut, left, polled: false, spin: false }
}
fn budgeted_spin<F: Future>(fut: F, left: u32) -> Budget<F> {
    Budget { fut, left, polled: false, spin: true }
}
impl<F: Future> Future for Budget<F> {
    type Output = Option<F::Output>;
    fn poll(self: Pin<&mut Self>, cx: &mut Context<'_>) -> Poll<Self::Output> {
        // Safety: structural pinning of `fut`
        let this = unsafe { self.get_unchecked_mut() };
        // sometimes give up *before* re-polling: the inner future may have been notified in the
        // meantime, so this drops a woken-but-not-yet-polled future (the wake-up must be passed on)
        if this.polled && draw(100) < 25 {
            super::count("cancel_before_repoll");
            return Poll::Ready(None);
        }
        this.polled = true;
        let fut = unsafe { Pin::new_unchecked(&mut this.fut) };
        match fut.poll(cx) {
            Poll::Ready(v) => Poll::Ready(Some(v)),
            Poll::Pending if this.left == 0 => {
                super::count("cancel_pending");
                Poll::Ready(None)
            }
            Poll::Pending => {
                this.left -= 1;
                if this.spin || draw(2) == 0 {
                    // busy re-poll (spurious poll); otherwise wait for a real wake-up
                    cx.waker().wake_by_ref();
                }
                Poll::Pending
            }
        }
    }
}

/// C17 under threads: a future that has just returned Pending must not report
/// `is_terminated()` (a `select!`-style caller would never poll it again).
struct FusedCheck<F> {
    fut: F,
}
impl<F: Future + futures_core::future::FusedFuture> Future for FusedCheck<F> {
    type Output = F::Output;
    fn poll(self: Pin<&mut Self>, cx: &mut Context<'_>) -> Poll<F::Output> {
        // Safety: structural pinning of `fut`
        let this = unsafe { self.get_unchecked_mut() };
        let r = unsafe { Pin::new_unchecked(&mut this.fut) }.poll(cx);
        match &r {
            Poll::Pending => {
                if this.fut.is_terminated() {
                    violation("C17", "pending-but-terminated", "a future returned Pending from a poll and reports is_terminated() == true right afterwards".into());
                }
            }
            Poll::Ready(_) => {
                if !this.fut.is_terminated() {
                    violation("C17", "completed-but-not-terminated", "a future returned Ready from a poll and reports is_terminated() == false right afterwards".into());
                }
            }
        }
        r
    }
}

/// Runs `mk()` to completion, but with probability `p_budget` % per attempt under a budget:
/// a budgeted attempt that gives up is dropped (cancelled while pending or while notified) and a
/// fresh future is made. At most three cancellations, then an unbudgeted attempt.
fn with_cancellations<F: Future + futures_core::future::FusedFuture>(p_budget: u64, mk: impl Fn() -> F) -> F::Output {
    for _ in 0..3 {
        if draw(100) < p_budget {
            if let Some(v) = block_on(budgeted(FusedCheck { fut: mk() }, draw(3) as u32)) {
                return v;
            }
        } else {
            break;
        }
    }
    block_on(FusedCheck { fut: mk() })
}

/// C01 (f): once every future is gone every wait queue must be empty. `is_live ≡ false`:
/// the walk never dereferences a node, a remaining node is reported instead of touched.
fn queues_must_be_empty(what: &str, snap: Snapshot) {
    for q in &snap.queues {
        if !q.nodes.is_empty() || q.error.is_some() {
            violation("C01", "queue-not-empty", format!("{}: all threads finished and every future was dropped, but queue `{}` still holds a node", what, q.name));
        }
    }
}

use crate::lin::{self, LinOp};

const EV_SET: u32 = 0;
const EV_RESET: u32 = 1;
const EV_IS_SET: u32 = 2;
const EV_POLL: u32 = 3;
const EV_DROP: u32 = 4;

#[derive(Default)]
struct History {
    seq: AtomicU64,
    ops: StdMutex<Vec<LinOp>>,
}
impl History {
    fn stamp(&self) -> u64 {
        self.seq.fetch_add(1, SeqCst)
    }
    fn record(&self, inv: u64, thread: u32, kind: u32, arg: u32, res: u32) {
        let ret = self.stamp();
        self.ops.lock().unwrap().push(LinOp { inv, ret, thread, kind, arg, res });
    }
}


fn base_cfg(rng: &mut Rng, c: &mut Cfg) {
    c.insert("stick".into(), *rng.pick(&[0i64, 30, 60, 85, 97]));
    // a quarter of the executions use PCT (strict priorities, depth 1..3) instead of the random walk
    c.insert("pct_depth".into(), if rng.pct(25) { rng.range(1, 3) } else { 0 });
    c.insert("pct_len".into(), *rng.pick(&[40i64, 150, 600]));
    c.insert("threads".into(), rng.range(2, 4));
    c.insert("iters".into(), rng.range(1, 3));
    c.insert("p_budget".into(), *rng.pick(&[0i64, 30, 60]));
}

// ================================================================ T-mutex

const MX_UNLOCK: u32 = 1;
const MX_IS_LOCKED: u32 = 2;
const MX_POLL1: u32 = 3;
const MX_POLLN: u32 = 4;
const MX_TRY: u32 = 5;
const MX_CANCEL: u32 = 6;

fn t_mutex(cfg: &Cfg) {
    let fair = cfg_get(cfg, "fair", 0) != 0;
    let n = cfg_get(cfg, "threads", 3) as usize;
    let iters = cfg_get(cfg, "iters", 2) as usize;
    let p_budget = cfg_get(cfg, "p_budget", 0) as u64;
    let m = Arc::new(GenericMutex::<M, u64>::new(0, fair));
    let in_cs = Arc::new(AtomicBool::new(false));
    let succ = Arc::new(AtomicU64::new(0));
    let hist = Arc::new(History::default());
    let flog = Arc::new(FairLog::default());
    let mut hs = Vec::new();
    for i in 0..n {
        let (m, in_cs, succ, hist, flog) = (m.clone(), in_cs.clone(), succ.clone(), hist.clone(), flog.clone());
        hs.push(thread::spawn(move || {
            for it in 0..iters {
                // attempt id, unique in the execution
                let aid = (i * 16 + it) as u32;
                if draw(100) < 20 {
                    let inv = hist.stamp();
                    let v = m.is_locked();
                    hist.record(inv, i as u32, MX_IS_LOCKED, 0, v as u32);
                }
                let budget = if draw(100) < p_budget { Some(draw(4) as u32) } else { None };
                let use_try = draw(100) < 15;
                let mut g = if use_try {
                    let inv = hist.stamp();
                    let s = inv + 1;
                    let r = m.try_lock();
                    hist.record(inv, i as u32, MX_TRY, aid, r.is_some() as u32);
                    match r {
                        Some(g) => {
                            flog.ents.lock().unwrap().push(FairEnt { who: i as u32, n: 1, start: s, reg: 0, last_start: s, ready: hist.stamp() + 1 });
                            g
                        }
                        None => continue,
                    }
                } else {
                    let fut = fair_stamp(lin_poll(m.lock(), &hist, i as u32, aid, (MX_POLL1, MX_POLLN, MX_CANCEL)), i as u32, 1, &hist, &flog);
                    match budget {
                        Some(b) => match block_on(budgeted(fut, b)) {
                            Some(g) => g,
                            None => continue,
                        },
                        None => block_on(fut),
                    }
                };
                if in_cs.swap(true, SeqCst) {
                    violation("C02", "two-in-critical-section", format!("thread {} holds a guard while another thread is inside the critical section", i));
                }
                let v = *g;
                thread::yield_now(); // a scheduling point between read and write
                *g = v + 1;
                succ.fetch_add(1, SeqCst);
                in_cs.store(false, SeqCst);
                let inv = hist.stamp();
                drop(g);
                hist.record(inv, i as u32, MX_UNLOCK, 0, 0);
            }
        }));
    }
    for h in hs {
        h.join().unwrap();
    }
    // C02 / C04 under threads: every poll of a lock future, try_lock(), guard drop, cancellation
    // and is_locked() observation must fit one sequential execution of the reference mutex
    // (state: locked?, wait queue in arrival order; fair: only the head may take a free mutex
    // and newcomers queue behind waiters)
    {
        let ops = hist.ops.lock().unwrap().clone();
        if ops.len() <= 60 {
            let step = move |st: &(bool, Vec<u32>), op: &LinOp| -> Option<(bool, Vec<u32>)> {
                let (locked, q) = (st.0, &st.1);
                let id = op.arg;
                match op.kind {
                    MX_POLL1 | MX_TRY => {
                        let can = !locked && (!fair || q.is_empty());
                        if (op.res != 0) != can {
                            return None;
                        }
                        let mut q = q.clone();
                        if !can && op.kind == MX_POLL1 {
                            q.push(id);
                        }
                        Some((locked || can, q))
                    }
                    MX_POLLN => {
                        let can = !locked && if fair { q.first() == Some(&id) } else { q.contains(&id) };
                        if (op.res != 0) != can {
                            return None;
                        }
                        let mut q = q.clone();
                        if can {
                            q.retain(|x| *x != id);
                        }
                        Some((locked || can, q))
                    }
                    MX_CANCEL => {
                        let mut q = q.clone();
                        q.retain(|x| *x != id);
                        Some((locked, q))
                    }
                    MX_UNLOCK => if locked { Some((false, q.clone())) } else { None },
                    _ => if (op.res != 0) == locked { Some(st.clone()) } else { None },
                }
            };
            if let Err(k) = lin::check(&ops, (false, Vec::new()), &step) {
                let mut sorted = ops.clone();
                sorted.sort_by_key(|o| o.inv);
                let names = ["?", "unlock", "is_locked", "first-poll", "re-poll", "try_lock", "cancel"];
                let txt: Vec<String> = sorted.iter().map(|o| format!("[{}..{}] t{} {}(#{})={}", o.inv, o.ret, o.thread, names[o.kind as usize], o.arg, o.res)).collect();
                // which property: without the fairness rules the history may still be explicable
                let relaxed = move |st: &(bool, Vec<u32>), op: &LinOp| -> Option<(bool, Vec<u32>)> {
                    let locked = st.0;
                    match op.kind {
                        MX_POLL1 | MX_TRY | MX_POLLN => {
                            if op.res != 0 {
                                if locked { None } else { Some((true, vec![])) }
                            } else {
                                Some((locked, vec![]))
                            }
                        }
                        MX_CANCEL => Some((locked, vec![])),
                        MX_UNLOCK => if locked { Some((false, vec![])) } else { None },
                        _ => if (op.res != 0) == locked { Some((locked, vec![])) } else { None },
                    }
                };
                let exclusion_ok = lin::check(&ops, (false, Vec::new()), &relaxed).is_ok();
                let (prop, what) = if exclusion_ok { (if fair { "C04" } else { "C03" }, "mutual exclusion holds, but the outcomes of polls / try_lock contradict the wait queue order (a waiter was overtaken, or a free mutex was refused)") } else { ("C02", "not even mutual exclusion and is_locked() can be explained") };
                violation(prop, "not-linearizable", format!("polls of lock futures, try_lock(), cancellations, guard drops and is_locked() results have no sequential explanation (fair = {}; at most {} of {} operations can be ordered; {}): {}", fair, k, ops.len(), what, txt.join("; ")));
            }
        }
    }
    if fair {
        flog.check("C04", "mutex");
    }
    if m.is_locked() {
        violation("C02", "locked-after-all-dropped", "is_locked() is true although every guard was dropped".into());
    }
    match m.try_lock() {
        Some(g) => {
            if *g != succ.load(SeqCst) {
                violation("C02", "torn-counter", format!("{} increments under the guard but the counter is {}", succ.load(SeqCst), *g));
            }
        }
        None => violation("C03", "free-mutex-not-lockable", "try_lock() fails although nobody holds the mutex".into()),
    }
    queues_must_be_empty("mutex", m.verif_snapshot(&mut |_| false));
}

fn cfg_mutex(rng: &mut Rng) -> Cfg {
    let mut c = Cfg::new();
    base_cfg(rng, &mut c);
    c.insert("fair".into(), rng.below(2) as i64);
    c
}

// ================================================================ poll-level histories (mutex, semaphore)

/// Records every poll of an acquisition future, and its cancellation (drop while pending),
/// as one operation each of the concurrent history: `kinds` = (first poll, later poll, cancel).
/// The sequential models below are deterministic at this granularity (a poll's outcome is a
/// function of lock state + wait queue), so a check and the action depending on it that
/// drifted into two critical sections show up as a history without sequential explanation.
struct LinPoll<F> {
    fut: std::mem::ManuallyDrop<F>,
    hist: Arc<History>,
    thread: u32,
    arg: u32,
    kinds: (u32, u32, u32),
    polled: bool,
    done: bool,
}

fn lin_poll<F: Future>(fut: F, hist: &Arc<History>, thread: u32, arg: u32, kinds: (u32, u32, u32)) -> LinPoll<F> {
    LinPoll { fut: std::mem::ManuallyDrop::new(fut), hist: hist.clone(), thread, arg, kinds, polled: false, done: false }
}

impl<F: Future> Future for LinPoll<F> {
    type Output = F::Output;
    fn poll(self: Pin<&mut Self>, cx: &mut Context<'_>) -> Poll<Self::Output> {
        // Safety: structural pinning of `fut`
        let this = unsafe { self.get_unchecked_mut() };
        let inv = this.hist.stamp();
        let r = unsafe { Pin::new_unchecked(&mut *this.fut) }.poll(cx);
        let kind = if this.polled { this.kinds.1 } else { this.kinds.0 };
        this.polled = true;
        this.done = r.is_ready();
        this.hist.record(inv, this.thread, kind, this.arg, r.is_ready() as u32);
        r
    }
}

impl<F> Drop for LinPoll<F> {
    fn drop(&mut self) {
        let cancel = self.polled && !self.done;
        let inv = self.hist.stamp();
        // Safety: dropped exactly once, in place (the future may be pinned)
        unsafe { std::mem::ManuallyDrop::drop(&mut self.fut) };
        if cancel {
            self.hist.record(inv, self.thread, self.kinds.2, self.arg, 0);
        }
    }
}

// ================================================================ FIFO fairness under threads (C04, C07)

/// One acquisition attempt that succeeded, with global stamps taken on the acquiring thread:
/// `start` before its first poll, `reg` after its first poll returned Pending (it was queued
/// by then; 0 = never pending), `last_start` before the poll that succeeded, `ready` after it.
#[derive(Clone, Copy)]
struct FairEnt {
    who: u32,
    /// requested amount (a zero-permit request never waits, not even on a fair semaphore)
    n: u64,
    start: u64,
    reg: u64,
    last_start: u64,
    ready: u64,
}

#[derive(Default)]
struct FairLog {
    ents: StdMutex<Vec<FairEnt>>,
}

impl FairLog {
    /// Fair mode: an attempt that was already queued when another one started is served first.
    /// `A.reg < B.start` — A was in the queue before B began; `B.ready < A.last_start` — B had
    /// the resource before the poll in which A obtained it even started. Cancelled attempts are
    /// not in the log (a cancelled waiter may of course be overtaken).
    fn check(&self, prop: &str, what: &str) {
        let e = self.ents.lock().unwrap().clone();
        for a in &e {
            for b in &e {
                if a.reg != 0 && b.n != 0 && a.reg < b.start && b.ready < a.last_start {
                    violation(
                        prop,
                        "overtaken-under-threads",
                        format!(
                            "fair {}: thread {}'s request was queued at {} (first poll returned Pending), thread {}'s attempt started later ({}) and completed at {}, before the poll in which the queued request succeeded even started ({})",
                            what, a.who, a.reg, b.who, b.start, b.ready, a.last_start
                        ),
                    );
                }
            }
        }
    }
}

struct FairStamp<F> {
    fut: F,
    hist: Arc<History>,
    log: Arc<FairLog>,
    ent: FairEnt,
}

fn fair_stamp<F: Future>(fut: F, who: u32, n: u64, hist: &Arc<History>, log: &Arc<FairLog>) -> FairStamp<F> {
    FairStamp { fut, hist: hist.clone(), log: log.clone(), ent: FairEnt { who, n, start: 0, reg: 0, last_start: 0, ready: 0 } }
}

impl<F: Future> Future for FairStamp<F> {
    type Output = F::Output;
    fn poll(self: Pin<&mut Self>, cx: &mut Context<'_>) -> Poll<Self::Output> {
        // Safety: structural pinning of `fut`
        let this = unsafe { self.get_unchecked_mut() };
        let s = this.hist.stamp() + 1;
        if this.ent.start == 0 {
            this.ent.start = s;
        }
        this.ent.last_start = s;
        let fut = unsafe { Pin::new_unchecked(&mut this.fut) };
        match fut.poll(cx) {
            Poll::Ready(v) => {
                this.ent.ready = this.hist.stamp() + 1;
                this.log.ents.lock().unwrap().push(this.ent);
                Poll::Ready(v)
            }
            Poll::Pending => {
                if this.ent.reg == 0 {
                    this.ent.reg = this.hist.stamp() + 1;
                }
                Poll::Pending
            }
        }
    }
}

// ================================================================ T-sem

const SM_REL: u32 = 1;
const SM_PERMITS: u32 = 2;
const SM_POLL1: u32 = 3;
const SM_POLLN: u32 = 4;
const SM_TRY: u32 = 5;
const SM_CANCEL: u32 = 6;

/// The T-sem program, once for the borrowed semaphore behind an `Arc` and once for the shared
/// (`Arc`-internal, cloneable) flavour, whose futures are separate code in the library.
macro_rules! def_t_sem {
    ($name:ident, $mk:expr) => {
        fn $name(cfg: &Cfg) {
            let fair = cfg_get(cfg, "fair", 0) != 0;
            let n = cfg_get(cfg, "threads", 3) as usize;
            let iters = cfg_get(cfg, "iters", 2) as usize;
            let p0 = cfg_get(cfg, "permits", 0) as u64;
            let grants = cfg_get(cfg, "grants", 2) as u64;
            let p_budget = cfg_get(cfg, "p_budget", 0) as u64;
            let total = p0 + grants;
            let sem = $mk(fair, p0 as usize);
            let circ = Arc::new(AtomicU64::new(p0));
            let held = Arc::new(AtomicU64::new(0));
            let hist = Arc::new(History::default());
            let flog = Arc::new(FairLog::default());
            let mut hs = Vec::new();
            {
                let (sem, circ, hist) = (sem.clone(), circ.clone(), hist.clone());
                hs.push(thread::spawn(move || {
                    for _ in 0..grants {
                        thread::yield_now();
                        circ.fetch_add(1, SeqCst);
                        let inv = hist.stamp();
                        sem.release(1);
                        hist.record(inv, 99, SM_REL, 1, 0);
                    }
                }));
            }
            for i in 0..n {
                let (sem, circ, held, hist, flog) = (sem.clone(), circ.clone(), held.clone(), hist.clone(), flog.clone());
                hs.push(thread::spawn(move || {
                    for it in 0..iters {
                        if draw(100) < 20 {
                            let inv = hist.stamp();
                            let v = sem.permits();
                            hist.record(inv, i as u32, SM_PERMITS, 0, v as u32);
                        }
                        let want = draw(4);
                        // attempt id (unique in the execution) and amount, packed
                        let aid = (((i * 16 + it) as u32) << 8) | want as u32;
                        // a request that can never be satisfied always carries a budget
                        let budget = if want > total || draw(100) < p_budget { Some(draw(5) as u32) } else { None };
                        let rel = if draw(100) < 20 {
                            let inv = hist.stamp();
                            let s = inv + 1;
                            let r = sem.try_acquire(want as usize);
                            hist.record(inv, i as u32, SM_TRY, aid, r.is_some() as u32);
                            match r {
                                Some(r) => {
                                    flog.ents.lock().unwrap().push(FairEnt { who: i as u32, n: want, start: s, reg: 0, last_start: s, ready: hist.stamp() + 1 });
                                    r
                                }
                                None => continue,
                            }
                        } else {
                            let fut = fair_stamp(lin_poll(sem.acquire(want as usize), &hist, i as u32, aid, (SM_POLL1, SM_POLLN, SM_CANCEL)), i as u32, want, &hist, &flog);
                            match budget {
                                // a request that can never be satisfied is never woken: it must re-poll by itself
                                Some(b) => match block_on(if want > total { budgeted_spin(fut, b) } else { budgeted(fut, b) }) {
                                    Some(r) => r,
                                    None => continue,
                                },
                                None => block_on(fut),
                            }
                        };
                        let h = held.fetch_add(want, SeqCst) + want;
                        if h > circ.load(SeqCst) {
                            violation("C05", "over-grant", format!("thread {} acquired {} permit(s): {} held in total but only {} exist", i, want, h, circ.load(SeqCst)));
                        }
                        thread::yield_now();
                        held.fetch_sub(want, SeqCst);
                        let inv = hist.stamp();
                        drop(rel);
                        hist.record(inv, i as u32, SM_REL, want as u32, 0);
                    }
                }));
            }
            for h in hs {
                h.join().unwrap();
            }
            // C05 / C07 under threads: every poll of an acquire future, try_acquire(), release,
            // cancellation and permits() observation must fit one sequential execution of the reference
            // semaphore (state: permits, wait queue in arrival order; fair: only the head may take
            // permits and newcomers with n > 0 queue behind waiters)
            {
                let ops = hist.ops.lock().unwrap().clone();
                if ops.len() <= 60 {
                    type St = (u64, Vec<u32>);
                    let mk = move |fifo: bool| {
                        move |st: &St, op: &LinOp| -> Option<St> {
                            let (permits, q) = (st.0, &st.1);
                            let id = op.arg >> 8;
                            let n = (op.arg & 0xff) as u64;
                            match op.kind {
                                SM_POLL1 | SM_TRY => {
                                    let can = permits >= n && (!fifo || q.is_empty() || n == 0);
                                    if (op.res != 0) != can {
                                        return None;
                                    }
                                    let mut q = q.clone();
                                    if !can && op.kind == SM_POLL1 {
                                        q.push(id);
                                    }
                                    Some((if can { permits - n } else { permits }, q))
                                }
                                SM_POLLN => {
                                    let can = permits >= n && if fifo { q.first() == Some(&id) } else { q.contains(&id) };
                                    if (op.res != 0) != can {
                                        return None;
                                    }
                                    let mut q = q.clone();
                                    if can {
                                        q.retain(|x| *x != id);
                                    }
                                    Some((if can { permits - n } else { permits }, q))
                                }
                                SM_CANCEL => {
                                    let mut q = q.clone();
                                    q.retain(|x| *x != id);
                                    Some((permits, q))
                                }
                                SM_REL => Some((permits + op.arg as u64, q.clone())),
                                _ => if op.res as u64 == permits { Some(st.clone()) } else { None },
                            }
                        }
                    };
                    if let Err(k) = lin::check(&ops, (p0, Vec::new()), &mk(fair)) {
                        let mut sorted = ops.clone();
                        sorted.sort_by_key(|o| o.inv);
                        let names = ["?", "release", "permits", "first-poll", "re-poll", "try_acquire", "cancel"];
                        let txt: Vec<String> = sorted
                            .iter()
                            .map(|o| if o.kind >= SM_POLL1 { format!("[{}..{}] t{} {}(#{}, n={})={}", o.inv, o.ret, o.thread, names[o.kind as usize], o.arg >> 8, o.arg & 0xff, o.res) } else { format!("[{}..{}] t{} {}({})={}", o.inv, o.ret, o.thread, names[o.kind as usize], o.arg, o.res) })
                            .collect();
                        // which property: successful acquisitions / releases / permits() alone (conservation)
                        let conservation = |st: &u64, op: &LinOp| -> Option<u64> {
                            let n = (op.arg & 0xff) as u64;
                            match op.kind {
                                SM_POLL1 | SM_TRY | SM_POLLN => if op.res == 0 { Some(*st) } else if *st >= n { Some(*st - n) } else { None },
                                SM_CANCEL => Some(*st),
                                SM_REL => Some(*st + op.arg as u64),
                                _ => if op.res as u64 == *st { Some(*st) } else { None },
                            }
                        };
                        let conserved = lin::check(&ops, p0, &conservation).is_ok();
                        let (prop, what) = if !conserved { ("C05", "not even the permit count can be explained") } else if fair { ("C07", "permits are conserved, but the outcomes of polls / try_acquire contradict the wait queue order") } else { ("C06", "permits are conserved, but a poll / try_acquire was refused although its request fitted") };
                        violation(prop, "not-linearizable", format!("polls of acquire futures, try_acquire(), cancellations, releases and permits() results have no sequential explanation (fair = {}; at most {} of {} operations can be ordered; initial permits {}; {}): {}", fair, k, ops.len(), p0, what, txt.join("; ")));
                    }
                }
            }
            if fair {
                flog.check("C07", "semaphore");
            }
            if sem.permits() as u64 != total {
                violation("C05", "permits-not-conserved", format!("everything was dropped: permits() = {} but initial + released = {}", sem.permits(), total));
            }
            queues_must_be_empty("semaphore", sem.verif_snapshot(&mut |_| false));
        }
    };
}
def_t_sem!(t_sem_borrowed, |fair: bool, p: usize| Arc::new(GenericSemaphore::<M>::new(fair, p)));
def_t_sem!(t_sem_shared, |fair: bool, p: usize| futures_intrusive::sync::GenericSharedSemaphore::<M>::new(fair, p));

fn t_sem(cfg: &Cfg) {
    if cfg_get(cfg, "shared", 0) != 0 {
        t_sem_shared(cfg)
    } else {
        t_sem_borrowed(cfg)
    }
}

fn cfg_sem(rng: &mut Rng) -> Cfg {
    let mut c = Cfg::new();
    base_cfg(rng, &mut c);
    c.insert("fair".into(), rng.below(2) as i64);
    c.insert("permits".into(), rng.range(0, 2));
    c.insert("grants".into(), rng.range(1, 3));
    c.insert("shared".into(), rng.pct(40) as i64);
    c
}

// ================================================================ channels: message ledger

#[derive(Default)]
struct Ledger {
    created: Vec<(u32, u32)>,
    dropped: Vec<u8>,
    received: Vec<u8>,
    sent_ok: Vec<bool>,
}
type Led = Arc<StdMutex<Ledger>>;
struct Msg {
    id: usize,
    producer: u32,
    seq: u32,
    led: Led,
}
impl Msg {
    fn new(led: &Led, producer: u32, seq: u32) -> Msg {
        let mut l = led.lock().unwrap();
        l.created.push((producer, seq));
        l.dropped.push(0);
        l.received.push(0);
        l.sent_ok.push(false);
        Msg { id: l.created.len() - 1, producer, seq, led: led.clone() }
    }
}
impl Drop for Msg {
    fn drop(&mut self) {
        self.led.lock().unwrap().dropped[self.id] += 1;
    }
}

/// C09 capacity bound under threads: a send that returned Ok was buffered or taken, so
/// (#sends that returned Ok) - (#receives invoked so far) <= capacity at every instant.
#[derive(Default)]
struct CapBound {
    ok_returned: AtomicU64,
    recv_invoked: AtomicU64,
}
impl CapBound {
    fn send_ok(&self, cap: usize) {
        let ok = self.ok_returned.fetch_add(1, SeqCst) + 1;
        let rv = self.recv_invoked.load(SeqCst);
        if ok > rv + cap as u64 {
            violation("C09", "capacity-exceeded", format!("{} sends have completed successfully but only {} receives were even started: more than the capacity {} is accepted and unreceived", ok, rv, cap));
        }
    }
    fn recv_start(&self) {
        self.recv_invoked.fetch_add(1, SeqCst);
    }
}

/// Real-time order oracle for C09 under threads. A send takes effect during its first poll
/// (or the try_send call); a receive takes its value during the poll that returns it. If the
/// first poll of send A returned before the first poll of send B was invoked, A precedes B in
/// the channel; so B must not be received by a poll that returned before the poll that
/// received A was even invoked.
#[derive(Default)]
struct Order {
    seq: AtomicU64,
    /// per message id: (first-poll inv, first-poll ret) of its send
    sends: StdMutex<Vec<(usize, u64, u64)>>,
    /// per message id: (inv, ret) of the receive operation that yielded it
    recvs: StdMutex<Vec<(usize, u64, u64)>>,
}
impl Order {
    fn stamp(&self) -> u64 {
        self.seq.fetch_add(1, SeqCst)
    }
    /// C11 under threads: a send whose first poll was invoked after close() had returned must fail
    fn check_close(&self, close_ret: u64, led: &Led) {
        if close_ret == u64::MAX {
            return;
        }
        let l = led.lock().unwrap();
        for (m, inv, _) in self.sends.lock().unwrap().iter() {
            if *inv > close_ret && l.sent_ok[*m] {
                violation("C11", "send-after-close-succeeded", format!("close() returned at {} but the send of message #{} that started at {} reported success", close_ret, m, inv));
            }
        }
    }
    fn check(&self) {
        let sends = self.sends.lock().unwrap();
        let recvs = self.recvs.lock().unwrap();
        for (a, _, a_ret) in sends.iter() {
            for (b, b_inv, _) in sends.iter() {
                if a == b || !(a_ret < b_inv) {
                    continue;
                }
                // A took effect strictly before B
                let ra = recvs.iter().find(|(m, _, _)| m == a);
                let rb = recvs.iter().find(|(m, _, _)| m == b);
                if let (Some((_, ra_inv, _)), Some((_, _, rb_ret))) = (ra, rb) {
                    if rb_ret < ra_inv {
                        violation("C09", "fifo-order", format!("message #{} was sent (first poll returned at {}) before message #{} was even started ({}), yet #{} was received by an operation that returned ({}) before the receive of #{} was invoked ({})", a, a_ret, b, b_inv, b, rb_ret, a, ra_inv));
                    }
                }
            }
        }
    }
}

/// stamps the first poll of a send future
struct StampedSend<F> {
    fut: F,
    order: Arc<Order>,
    msg: usize,
    first: bool,
}
impl<F: Future> Future for StampedSend<F> {
    type Output = F::Output;
    fn poll(self: Pin<&mut Self>, cx: &mut Context<'_>) -> Poll<F::Output> {
        let this = unsafe { self.get_unchecked_mut() };
        let fut = unsafe { Pin::new_unchecked(&mut this.fut) };
        if this.first {
            this.first = false;
            let inv = this.order.stamp();
            let r = fut.poll(cx);
            let ret = this.order.stamp();
            this.order.sends.lock().unwrap().push((this.msg, inv, ret));
            r
        } else {
            fut.poll(cx)
        }
    }
}

/// `cancel()` of a pinned send future (borrowed and shared flavour)
trait CancelPinned {
    type V;
    fn cancel_pinned(self: Pin<&mut Self>) -> Option<Self::V>;
}
impl<'a, MT: lock_api::RawMutex, T> CancelPinned for futures_intrusive::channel::ChannelSendFuture<'a, MT, T> {
    type V = T;
    fn cancel_pinned(self: Pin<&mut Self>) -> Option<T> {
        // Safety: cancel() does not move the future
        unsafe { self.get_unchecked_mut() }.cancel()
    }
}
impl<MT: lock_api::RawMutex, T> CancelPinned for sh::ChannelSendFuture<MT, T> {
    type V = T;
    fn cancel_pinned(self: Pin<&mut Self>) -> Option<T> {
        // Safety: cancel() does not move the future
        unsafe { self.get_unchecked_mut() }.cancel()
    }
}

enum SendEnd<T> {
    Done(Result<(), futures_intrusive::channel::ChannelSendError<T>>),
    /// cancel() handed the value back: it was never sent
    Withdrawn(T),
    /// cancel() found the value gone: a receiver took it in the meantime, the send took effect
    TakenMeanwhile,
}

/// A send that gives up after `left` pending polls by calling `cancel()` (not by dropping the
/// future): the value comes back, unless a receiver was faster.
struct CancellingSend<F> {
    fut: StampedSend<F>,
    left: u32,
}
impl<T, F: Future<Output = Result<(), futures_intrusive::channel::ChannelSendError<T>>> + CancelPinned<V = T>> Future for CancellingSend<F> {
    type Output = SendEnd<T>;
    fn poll(self: Pin<&mut Self>, cx: &mut Context<'_>) -> Poll<SendEnd<T>> {
        // Safety: structural pinning
        let this = unsafe { self.get_unchecked_mut() };
        match unsafe { Pin::new_unchecked(&mut this.fut) }.poll(cx) {
            Poll::Ready(r) => Poll::Ready(SendEnd::Done(r)),
            Poll::Pending if this.left == 0 => {
                super::count("cancel_send");
                let inner = unsafe { Pin::new_unchecked(&mut this.fut.fut) };
                match inner.cancel_pinned() {
                    Some(v) => Poll::Ready(SendEnd::Withdrawn(v)),
                    None => Poll::Ready(SendEnd::TakenMeanwhile),
                }
            }
            Poll::Pending => {
                this.left -= 1;
                if draw(2) == 0 {
                    cx.waker().wake_by_ref();
                }
                Poll::Pending
            }
        }
    }
}

/// stamps the poll of a receive future that yields a message
struct StampedRecv<F> {
    fut: F,
    order: Arc<Order>,
}
impl<F: Future<Output = Option<Msg>>> Future for StampedRecv<F> {
    type Output = Option<Msg>;
    fn poll(self: Pin<&mut Self>, cx: &mut Context<'_>) -> Poll<Option<Msg>> {
        let this = unsafe { self.get_unchecked_mut() };
        let fut = unsafe { Pin::new_unchecked(&mut this.fut) };
        let inv = this.order.stamp();
        let r = fut.poll(cx);
        if let Poll::Ready(Some(m)) = &r {
            let ret = this.order.stamp();
            this.order.recvs.lock().unwrap().push((m.id, inv, ret));
        }
        r
    }
}

fn consume(led: &Led, who: usize, last: &mut Vec<i64>, m: Msg) {
    led.lock().unwrap().received[m.id] += 1;
    let p = m.producer as usize;
    if last.len() <= p {
        last.resize(p + 1, -1);
    }
    if (m.seq as i64) <= last[p] {
        violation("C09", "per-producer-order", format!("consumer {} received message {}/{} after {}/{}", who, p, m.seq, p, last[p]));
    }
    last[p] = m.seq as i64;
}

fn ledger_final(led: &Led) {
    let l = led.lock().unwrap();
    for (id, (p, s)) in l.created.iter().enumerate() {
        if l.dropped[id] != 1 {
            violation("C08", "drop-count", format!("message {}/{} was dropped {} time(s)", p, s, l.dropped[id]));
        }
        if l.received[id] > 1 {
            violation("C08", "received-twice", format!("message {}/{} was received {} times", p, s, l.received[id]));
        }
        if l.sent_ok[id] && l.received[id] == 0 {
            // C08: an accepted value is delivered; C11: receivers get every value accepted before the close
            violation_multi(&[("C08", "accepted-value-lost"), ("C11", "accepted-value-not-delivered")], format!("send of message {}/{} reported success but no consumer received it although a consumer drained the channel to the end (None)", p, s));
        }
    }
}

// ================================================================ T-chan (borrowed channel in an Arc)

// ================================================================ T-chan "trap" executions (C10 / C08 under threads)

/// One producer, `m` numbered messages, consumers that are either *quitters* (one budgeted
/// receive attempt; giving up drops a pending or already notified future, then the thread
/// leaves) or *stayers* (purely wake-driven receives until the channel closes). Nobody closes
/// the channel until the last message has been received (its receiver closes), so a wake-up
/// that is lost on the way - e.g. swallowed by a quitter that was dropped while a sender
/// notified it - cannot be repaired by later traffic: the execution deadlocks.
macro_rules! def_t_chan_trap {
    ($name:ident, $mk:expr, $what:expr) => {
        fn $name(cfg: &Cfg) {
            let cap = cfg_get(cfg, "cap", 1) as usize;
            let nc = 2 + (cfg_get(cfg, "consumers", 2) as usize).min(2);
            let m = 1 + draw(2);
            let (tx, rx) = $mk(cap);
            let got: Arc<Vec<AtomicUsize>> = Arc::new((0..4).map(|_| AtomicUsize::new(0)).collect());
            let mut hs = Vec::new();
            {
                let tx = tx.clone();
                hs.push(thread::spawn(move || {
                    for i in 1..=m {
                        if block_on(tx.send(i)).is_err() && i <= m {
                            // only the receiver of the last message closes the channel
                            violation("C11", "send-failed-while-open", format!("{}: send of message {} of {} failed although nobody closed the channel yet", $what, i, m));
                        }
                    }
                }));
            }
            for c in 0..nc {
                let (rx, got) = (rx.clone(), got.clone());
                hs.push(thread::spawn(move || {
                    let stayer = c == 0 || draw(2) == 0;
                    let take = |v: u64| -> bool {
                        if got[v as usize].fetch_add(1, SeqCst) != 0 {
                            violation("C08", "delivered-twice", format!("{}: message {} was received twice", $what, v));
                        }
                        if v == m {
                            rx.close();
                        }
                        v == m
                    };
                    if stayer {
                        while let Some(v) = block_on(rx.receive()) {
                            if take(v) {
                                break;
                            }
                        }
                    } else if let Some(Some(v)) = block_on(budgeted(rx.receive(), draw(3) as u32)) {
                        take(v);
                    }
                }));
            }
            drop(tx);
            drop(rx);
            for h in hs {
                h.join().unwrap();
            }
            for i in 1..=m {
                if got[i as usize].load(SeqCst) != 1 {
                    violation("C08", "accepted-value-lost", format!("{}: message {} of {} was sent but never received although a consumer stayed to the end", $what, i, m));
                }
            }
        }
    };
}
def_t_chan_trap!(
    t_chan_trap_borrowed,
    |cap: usize| {
        let c = Arc::new(GenericChannel::<M, u64, GrowingHeapBuf<u64>>::with_capacity(cap));
        (c.clone(), c)
    },
    "mpmc channel"
);
def_t_chan_trap!(t_chan_trap_shared, |cap: usize| sh::generic_channel::<M, u64, GrowingHeapBuf<u64>>(cap), "shared mpmc channel");

fn t_chan(cfg: &Cfg) {
    if cfg_get(cfg, "trap", 0) != 0 {
        return t_chan_trap_borrowed(cfg);
    }
    let np = cfg_get(cfg, "producers", 2) as usize;
    let nc = cfg_get(cfg, "consumers", 2) as usize;
    let items = cfg_get(cfg, "items", 2) as usize;
    let cap = cfg_get(cfg, "cap", 1) as usize;
    let p_budget = cfg_get(cfg, "p_budget", 0) as u64;
    let chan = Arc::new(GenericChannel::<M, Msg, GrowingHeapBuf<Msg>>::with_capacity(cap));
    let led: Led = Arc::new(StdMutex::new(Ledger::default()));
    let live = Arc::new(AtomicUsize::new(np));
    let bound = Arc::new(CapBound::default());
    let order = Arc::new(Order::default());
    let mut hs = Vec::new();
    for p in 0..np {
        let (chan, led, live, bound, order) = (chan.clone(), led.clone(), live.clone(), bound.clone(), order.clone());
        hs.push(thread::spawn(move || {
            for s in 0..items {
                let m = Msg::new(&led, p as u32, s as u32);
                let id = m.id;
                if cap > 0 && draw(100) < 25 {
                    let inv = order.stamp();
                    match chan.try_send(m) {
                        Ok(()) => {
                            let ret = order.stamp();
                            order.sends.lock().unwrap().push((id, inv, ret));
                            bound.send_ok(cap);
                            led.lock().unwrap().sent_ok[id] = true
                        }
                        Err(e) => {
                            if block_on(StampedSend { fut: chan.send(e.into_inner()), order: order.clone(), msg: id, first: true }).is_ok() {
                                bound.send_ok(cap);
                                led.lock().unwrap().sent_ok[id] = true;
                            }
                        }
                    }
                } else if draw(100) < p_budget {
                    // a send with a deadline: cancel() instead of waiting on
                    match block_on(CancellingSend { fut: StampedSend { fut: chan.send(m), order: order.clone(), msg: id, first: true }, left: draw(3) as u32 }) {
                        SendEnd::Done(Ok(())) | SendEnd::TakenMeanwhile => {
                            bound.send_ok(cap);
                            led.lock().unwrap().sent_ok[id] = true;
                        }
                        SendEnd::Done(Err(_)) => {}
                        SendEnd::Withdrawn(v) => {
                            if v.id != id {
                                violation("C08", "cancel-returned-wrong-value", format!("cancel() of the send of message #{} handed back message #{}", id, v.id));
                            }
                        }
                    }
                } else if block_on(StampedSend { fut: chan.send(m), order: order.clone(), msg: id, first: true }).is_ok() {
                    bound.send_ok(cap);
                    led.lock().unwrap().sent_ok[id] = true;
                }
            }
            // the last producer closes the channel
            if live.fetch_sub(1, SeqCst) == 1 {
                chan.close();
            }
        }));
    }
    // sometimes a thread closes the channel while sends are in flight (C11: a send that starts
    // after close() returned must fail; an accepted value is still delivered)
    let close_ret = Arc::new(AtomicU64::new(u64::MAX));
    if cfg_get(cfg, "closer", 0) != 0 {
        let (chan, order, close_ret) = (chan.clone(), order.clone(), close_ret.clone());
        hs.push(thread::spawn(move || {
            for _ in 0..draw(4) {
                thread::yield_now();
            }
            chan.close();
            close_ret.store(order.stamp(), SeqCst);
        }));
    }
    for c in 0..nc {
        let (chan, led, bound, order) = (chan.clone(), led.clone(), bound.clone(), order.clone());
        hs.push(thread::spawn(move || {
            let mut last: Vec<i64> = Vec::new();
            let mut abandons = 3;
            loop {
                let budget = if abandons > 0 && draw(100) < p_budget { Some(draw(4) as u32) } else { None };
                bound.recv_start();
                let got = match budget {
                    // a consumer that abandons a pending receive (finitely often)
                    Some(b) => match block_on(budgeted(StampedRecv { fut: chan.receive(), order: order.clone() }, b)) {
                        Some(v) => v,
                        None => {
                            abandons -= 1;
                            continue;
                        }
                    },
                    None => {
                        if draw(100) < 15 {
                            let inv = order.stamp();
                            match chan.try_receive() {
                                Ok(m) => {
                                    let ret = order.stamp();
                                    order.recvs.lock().unwrap().push((m.id, inv, ret));
                                    Some(m)
                                }
                                Err(_) => {
                                    thread::yield_now();
                                    block_on(StampedRecv { fut: chan.receive(), order: order.clone() })
                                }
                            }
                        } else {
                            block_on(StampedRecv { fut: chan.receive(), order: order.clone() })
                        }
                    }
                };
                match got {
                    Some(m) => consume(&led, c, &mut last, m),
                    None => break,
                }
            }
        }));
    }
    for h in hs {
        h.join().unwrap();
    }
    queues_must_be_empty("mpmc channel", chan.verif_snapshot(&mut |_| false));
    drop(chan);
    ledger_final(&led);
    order.check();
    order.check_close(close_ret.load(SeqCst), &led);
}

fn cfg_chan(rng: &mut Rng) -> Cfg {
    let mut c = Cfg::new();
    base_cfg(rng, &mut c);
    c.insert("producers".into(), rng.range(1, 2));
    c.insert("consumers".into(), rng.range(1, 2));
    c.insert("items".into(), rng.range(1, 3));
    c.insert("cap".into(), rng.range(0, 2));
    c.insert("closer".into(), rng.pct(40) as i64);
    c.insert("trap".into(), rng.pct(35) as i64);
    c
}

// ================================================================ T-chan-shared (handle lifecycle under threads)

fn t_chan_shared(cfg: &Cfg) {
    if cfg_get(cfg, "trap", 0) != 0 {
        return t_chan_trap_shared(cfg);
    }
    let np = cfg_get(cfg, "producers", 2) as usize;
    let nc = cfg_get(cfg, "consumers", 2) as usize;
    let items = cfg_get(cfg, "items", 2) as usize;
    let cap = cfg_get(cfg, "cap", 1) as usize;
    let p_budget = cfg_get(cfg, "p_budget", 0) as u64;
    let (tx, rx) = sh::generic_channel::<M, Msg, GrowingHeapBuf<Msg>>(cap);
    let obs = tx.verif_observer();
    let led: Led = Arc::new(StdMutex::new(Ledger::default()));
    let producers_done = Arc::new(AtomicUsize::new(0));
    let bound = Arc::new(CapBound::default());
    let order = Arc::new(Order::default());
    let has_closer = cfg_get(cfg, "closer", 0) != 0;
    let close_ret = Arc::new(AtomicU64::new(u64::MAX));
    let mut hs = Vec::new();
    if has_closer {
        let (rx, order, close_ret) = (rx.clone(), order.clone(), close_ret.clone());
        hs.push(thread::spawn(move || {
            for _ in 0..draw(4) {
                thread::yield_now();
            }
            rx.close();
            close_ret.store(order.stamp(), SeqCst);
            drop(rx);
        }));
    }
    for p in 0..np {
        let (tx, led, done, bound, order) = (tx.clone(), led.clone(), producers_done.clone(), bound.clone(), order.clone());
        hs.push(thread::spawn(move || {
            // handle churn: clone and drop racing with the other threads
            let tx = if draw(2) == 0 {
                let t2 = tx.clone();
                drop(tx);
                t2
            } else {
                tx
            };
            for s in 0..items {
                let m = Msg::new(&led, p as u32, s as u32);
                let id = m.id;
                if draw(100) < p_budget {
                    // a send with a deadline: cancel() instead of waiting on
                    match block_on(CancellingSend { fut: StampedSend { fut: tx.send(m), order: order.clone(), msg: id, first: true }, left: draw(3) as u32 }) {
                        SendEnd::Done(Ok(())) | SendEnd::TakenMeanwhile => {
                            bound.send_ok(cap);
                            led.lock().unwrap().sent_ok[id] = true;
                        }
                        SendEnd::Done(Err(_)) => {
                            if !has_closer {
                                violation("C11", "closed-while-handles-alive", format!("producer {}: send failed although a sender handle and a receiver handle are alive", p))
                            }
                        }
                        SendEnd::Withdrawn(v) => {
                            if v.id != id {
                                violation("C08", "cancel-returned-wrong-value", format!("cancel() of the send of message #{} handed back message #{}", id, v.id));
                            }
                        }
                    }
                    continue;
                }
                match block_on(StampedSend { fut: tx.send(m), order: order.clone(), msg: id, first: true }) {
                    Ok(()) => {
                        bound.send_ok(cap);
                        led.lock().unwrap().sent_ok[id] = true
                    }
                    // this thread holds a sender and the main thread holds a receiver: without an
                    // explicit close the channel must be open
                    Err(_) => {
                        if !has_closer {
                            violation("C11", "closed-while-handles-alive", format!("producer {}: send failed although a sender handle and a receiver handle are alive", p))
                        }
                    }
                }
            }
            done.fetch_add(1, SeqCst);
            drop(tx);
        }));
    }
    drop(tx);
    let mut chs = Vec::new();
    for c in 0..nc {
        let (rx, led, bound, order) = (rx.clone(), led.clone(), bound.clone(), order.clone());
        chs.push(thread::spawn(move || {
            let rx = if draw(2) == 0 {
                let r2 = rx.clone();
                drop(rx);
                r2
            } else {
                rx
            };
            let mut last: Vec<i64> = Vec::new();
            let mut abandons = 3;
            loop {
                let budget = if abandons > 0 && draw(100) < p_budget { Some(draw(4) as u32) } else { None };
                bound.recv_start();
                let got = match budget {
                    Some(b) => match block_on(budgeted(StampedRecv { fut: rx.receive(), order: order.clone() }, b)) {
                        Some(v) => v,
                        None => {
                            abandons -= 1;
                            continue;
                        }
                    },
                    None => block_on(StampedRecv { fut: rx.receive(), order: order.clone() }),
                };
                match got {
                    Some(m) => consume(&led, c, &mut last, m),
                    None => break,
                }
            }
        }));
    }
    // the main thread keeps one receiver handle alive until every producer is done
    for h in hs {
        h.join().unwrap();
    }
    drop(rx);
    for h in chs {
        h.join().unwrap();
    }
    let snap = obs.verif_snapshot(&mut |_| false);
    if snap.scalar("is_closed") != Some(1) {
        violation("C11", "not-closed-after-last-handle", "every sender and receiver handle was dropped but the channel is not closed".into());
    }
    if snap.scalar("senders") != Some(0) || snap.scalar("receivers") != Some(0) {
        violation("C11", "handle-count", format!("every handle was dropped but the channel counts {:?} sender(s) / {:?} receiver(s)", snap.scalar("senders"), snap.scalar("receivers")));
    }
    if snap.scalar("buffer_len") != Some(0) {
        violation("C11", "buffer-not-discarded", "the last receiver is gone but values are still buffered".into());
    }
    queues_must_be_empty("shared mpmc channel", snap);
    drop(obs);
    ledger_final(&led);
    order.check();
    order.check_close(close_ret.load(SeqCst), &led);
}

// ================================================================ T-event (linearizability against the event model)

/// logs every poll (and the drop) of a wait future as one operation of the history
struct LoggedWait<F> {
    fut: Option<F>,
    hist: Arc<History>,
    thread: u32,
    id: u32,
    completed: bool,
}
impl<F: Future<Output = ()>> Future for LoggedWait<F> {
    type Output = ();
    fn poll(self: Pin<&mut Self>, cx: &mut Context<'_>) -> Poll<()> {
        let this = unsafe { self.get_unchecked_mut() };
        let inv = this.hist.stamp();
        let fut = unsafe { Pin::new_unchecked(this.fut.as_mut().unwrap()) };
        let r = fut.poll(cx);
        this.hist.record(inv, this.thread, EV_POLL, this.id, r.is_ready() as u32);
        if r.is_ready() {
            this.completed = true;
        }
        r
    }
}
impl<F> Drop for LoggedWait<F> {
    fn drop(&mut self) {
        let inv = self.hist.stamp();
        self.fut = None; // the library's Drop runs here
        if !self.completed {
            self.hist.record(inv, self.thread, EV_DROP, self.id, 0);
        }
    }
}

/// sequential reference model: (is_set, registered bitmask, latched bitmask)
fn event_step(st: &(bool, u32, u32), op: &LinOp) -> Option<(bool, u32, u32)> {
    let (is_set, reg, lat) = *st;
    let bit = 1u32 << (op.arg & 31);
    match op.kind {
        EV_SET => Some((true, reg, lat | reg)),
        EV_RESET => Some((false, reg, lat)),
        EV_IS_SET => {
            if (op.res != 0) == is_set {
                Some(*st)
            } else {
                None
            }
        }
        EV_POLL => {
            let ready = if reg & bit == 0 { is_set } else { lat & bit != 0 };
            if (op.res != 0) != ready {
                return None;
            }
            if ready {
                Some((is_set, reg & !bit, lat & !bit))
            } else {
                Some((is_set, reg | bit, lat))
            }
        }
        _ => Some((is_set, reg & !bit, lat & !bit)),
    }
}

fn t_event(cfg: &Cfg) {
    let n = cfg_get(cfg, "threads", 2) as usize;
    let iters = cfg_get(cfg, "iters", 2) as usize;
    let flips = cfg_get(cfg, "flips", 2) as usize;
    let p_budget = cfg_get(cfg, "p_budget", 0) as u64;
    // half of the executions: every waiter thread ends with a wait that has no budget and never
    // re-polls by itself; the main thread's final set() (nothing resets after it) must wake it
    let final_wake = cfg_get(cfg, "final_wake", 0) != 0;
    let ev = Arc::new(GenericManualResetEvent::<M>::new(false));
    let hist = Arc::new(History::default());
    let next_wait = Arc::new(AtomicUsize::new(0));
    let mut hs = Vec::new();
    for t in 0..2u32 {
        // two threads flip the event; the last thing thread 0 does is a set()
        let (ev, hist) = (ev.clone(), hist.clone());
        hs.push(thread::spawn(move || {
            for _ in 0..flips {
                let inv = hist.stamp();
                match draw(3) {
                    0 => {
                        ev.set();
                        hist.record(inv, t, EV_SET, 0, 0);
                    }
                    1 => {
                        ev.reset();
                        hist.record(inv, t, EV_RESET, 0, 0);
                    }
                    _ => {
                        let v = ev.is_set();
                        hist.record(inv, t, EV_IS_SET, 0, v as u32);
                    }
                }
                thread::yield_now();
            }
        }));
    }
    let mut ws = Vec::new();
    for i in 0..n {
        let (ev, hist, next_wait) = (ev.clone(), hist.clone(), next_wait.clone());
        ws.push(thread::spawn(move || {
            for _ in 0..iters {
                let id = next_wait.fetch_add(1, SeqCst) as u32;
                // these waits carry a budget: nothing guarantees a later set() while the flippers run
                let b = if draw(100) < p_budget { draw(4) as u32 } else { 6 + draw(6) as u32 };
                let w = LoggedWait { fut: Some(ev.wait()), hist: hist.clone(), thread: 10 + i as u32, id, completed: false };
                let _ = block_on(budgeted_spin(w, b));
            }
            if final_wake {
                let id = next_wait.fetch_add(1, SeqCst) as u32;
                block_on(LoggedWait { fut: Some(ev.wait()), hist: hist.clone(), thread: 10 + i as u32, id, completed: false });
            }
        }));
    }
    for h in hs {
        h.join().unwrap();
    }
    if !final_wake {
        for h in ws.drain(..) {
            h.join().unwrap();
        }
    }
    // a final set() with waiters that must complete (liveness), then the state is observed
    let inv = hist.stamp();
    ev.set();
    hist.record(inv, 99, EV_SET, 0, 0);
    for h in ws {
        h.join().unwrap();
    }
    let id = next_wait.fetch_add(1, SeqCst) as u32;
    block_on(LoggedWait { fut: Some(ev.wait()), hist: hist.clone(), thread: 99, id, completed: false });
    let inv = hist.stamp();
    let v = ev.is_set();
    hist.record(inv, 99, EV_IS_SET, 0, v as u32);
    let ops = hist.ops.lock().unwrap().clone();
    if ops.len() <= 60 {
        if let Err(k) = lin::check(&ops, (false, 0u32, 0u32), &event_step) {
            let mut sorted = ops.clone();
            sorted.sort_by_key(|o| o.inv);
            let names = ["set", "reset", "is_set", "poll", "drop"];
            let txt: Vec<String> = sorted.iter().map(|o| format!("[{}..{}] t{} {}(w{})={}", o.inv, o.ret, o.thread, names[o.kind as usize], o.arg, o.res)).collect();
            violation("C14", "not-linearizable", format!("the concurrent history of set/reset/is_set/wait polls has no sequential explanation (at most {} of {} operations can be ordered): {}", k, ops.len(), txt.join("; ")));
        }
    }
    queues_must_be_empty("event", ev.verif_snapshot(&mut |_| false));
}

fn cfg_event(rng: &mut Rng) -> Cfg {
    let mut c = Cfg::new();
    base_cfg(rng, &mut c);
    c.insert("flips".into(), rng.range(1, 4));
    c.insert("final_wake".into(), rng.pct(50) as i64);
    c
}

// ================================================================ T-oneshot (shared broadcast: receiver clones come and go)

/// borrowed oneshot / oneshot-broadcast: two senders race, several receivers wait
fn t_oneshot_borrowed(cfg: &Cfg) {
    use futures_intrusive::channel::{GenericOneshotBroadcastChannel, GenericOneshotChannel};
    let n = cfg_get(cfg, "threads", 2) as usize;
    let broadcast = cfg_get(cfg, "mode", 0) == 2;
    let p_budget = cfg_get(cfg, "p_budget", 0) as u64;
    let one = Arc::new(GenericOneshotChannel::<M, u32>::new());
    let bc = Arc::new(GenericOneshotBroadcastChannel::<M, u32>::new());
    let oks = Arc::new(AtomicUsize::new(0));
    let winner = Arc::new(AtomicU64::new(0));
    let somes = Arc::new(AtomicUsize::new(0));
    let nones = Arc::new(AtomicUsize::new(0));
    let mut hs = Vec::new();
    for t in 1..=2u32 {
        let (one, bc, oks, winner) = (one.clone(), bc.clone(), oks.clone(), winner.clone());
        hs.push(thread::spawn(move || {
            if draw(2) == 0 {
                thread::yield_now();
            }
            let r = if broadcast { bc.send(t) } else { one.send(t) };
            match r {
                Ok(()) => {
                    oks.fetch_add(1, SeqCst);
                    winner.store(t as u64, SeqCst);
                }
                Err(e) => {
                    if e.0 != t {
                        violation("C12", "wrong-value-handed-back", format!("sender {} got value {} back", t, e.0));
                    }
                }
            }
        }));
    }
    for i in 0..n {
        let (one, bc, somes, nones) = (one.clone(), bc.clone(), somes.clone(), nones.clone());
        hs.push(thread::spawn(move || {
            // receive attempts may be cancelled (dropped while pending or notified) and retried
            let v = if broadcast { with_cancellations(p_budget, || bc.receive()) } else { with_cancellations(p_budget, || one.receive()) };
            match v {
                Some(x) if x == 1 || x == 2 => {
                    somes.fetch_add(1, SeqCst);
                }
                Some(x) => violation("C12", "wrong-value", format!("receiver {} got {}", i, x)),
                None => {
                    nones.fetch_add(1, SeqCst);
                }
            }
        }));
    }
    for h in hs {
        h.join().unwrap();
    }
    if oks.load(SeqCst) != 1 {
        violation("C12", "first-send-only", format!("two senders raced on an open oneshot channel and {} sends succeeded (exactly one must)", oks.load(SeqCst)));
    }
    if broadcast && nones.load(SeqCst) > 0 {
        violation("C12", "broadcast-missed", format!("a value was sent but {} receiver(s) got None", nones.load(SeqCst)));
    }
    if !broadcast && somes.load(SeqCst) != 1 {
        violation("C12", "single-delivery", format!("a value was sent and {} receiver(s) got it (exactly one expected)", somes.load(SeqCst)));
    }
    if broadcast {
        queues_must_be_empty("oneshot broadcast channel", bc.verif_snapshot(&mut |_| false));
    } else {
        queues_must_be_empty("oneshot channel", one.verif_snapshot(&mut |_| false));
    }
}

/// shared single-consumer oneshot: sender and receiver handles on different threads; the
/// sender sends or just goes away, the receiver receives (with cancellations) or goes away early,
/// and a receive future may outlive its receiver handle
/// "orphan" execution of the shared single-consumer oneshot: the receive future outlives the
/// receiver handle it was made from (dropping that handle closes the channel) while the sender
/// sends, or goes away without sending, on another thread. A send that reported success must be
/// what the parked future yields — the close that follows does not take an accepted value away —
/// and a future that yields a value implies a successful send; a future nobody wakes is a deadlock.
fn t_oneshot_orphan(_cfg: &Cfg) {
    let (tx, rx) = sh::generic_oneshot_channel::<M, u32>();
    let obs = tx.verif_observer();
    let sent_ok = Arc::new(AtomicU64::new(0));
    let h_tx = {
        let sent_ok = sent_ok.clone();
        thread::spawn(move || {
            if draw(2) == 0 {
                thread::yield_now();
            }
            if draw(3) == 0 {
                drop(tx);
                return;
            }
            match tx.send(7) {
                Ok(()) => sent_ok.store(1, SeqCst),
                Err(e) => {
                    if e.0 != 7 {
                        violation("C11", "wrong-value-returned", format!("a failed send handed back {} instead of 7", e.0));
                    }
                }
            }
        })
    };
    let fut = rx.receive();
    let got = block_on(FusedCheck { fut: DropHandleAfterFirstPendingFused(DropHandleAfterFirstPending { fut, handle: Some(rx) }) });
    h_tx.join().unwrap();
    match (got, sent_ok.load(SeqCst)) {
        (Some(7), 1) | (None, 0) => {}
        (Some(v), 1) => violation("C12", "wrong-value", format!("the receiver got {} but 7 was sent", v)),
        (Some(v), _) => violation("C12", "value-from-nowhere", format!("the receiver got {} although no send succeeded", v)),
        (None, _) => violation("C12", "value-lost", "send reported success but the only receive future, parked before the send, yielded None".into()),
    }
    queues_must_be_empty("oneshot channel", obs.verif_snapshot(&mut |_| false));
}

fn t_oneshot_shared_single(cfg: &Cfg) {
    if cfg_get(cfg, "orphan", 0) != 0 {
        return t_oneshot_orphan(cfg);
    }
    let p_budget = cfg_get(cfg, "p_budget", 0) as u64;
    let (tx, rx) = sh::generic_oneshot_channel::<M, u32>();
    let obs = tx.verif_observer();
    let sent_ok = Arc::new(AtomicU64::new(0));
    let h_tx = {
        let sent_ok = sent_ok.clone();
        thread::spawn(move || {
            if draw(4) == 0 {
                // closes the channel without a value
                drop(tx);
                return;
            }
            if draw(2) == 0 {
                thread::yield_now();
            }
            match tx.send(7) {
                Ok(()) => {
                    sent_ok.store(1, SeqCst);
                    // a second send on the used channel must fail and hand the value back
                    match tx.send(8) {
                        Ok(()) => violation("C12", "second-send-succeeded", "a second send on a oneshot channel succeeded".into()),
                        Err(e) => {
                            if e.0 != 8 {
                                violation("C12", "wrong-value-handed-back", format!("the rejected second send got value {} back", e.0));
                            }
                        }
                    }
                }
                Err(e) => {
                    // only legal if the receiver side is gone
                    if e.0 != 7 {
                        violation("C12", "wrong-value-handed-back", format!("the rejected send got value {} back", e.0));
                    }
                    sent_ok.store(2, SeqCst);
                }
            }
        })
    };
    let got: Arc<AtomicU64> = Arc::new(AtomicU64::new(u64::MAX));
    let h_rx = {
        let got = got.clone();
        thread::spawn(move || match draw(4) {
            0 => drop(rx),
            1 => {
                // the future outlives the receiver handle (dropping the handle closes the channel)
                let f = rx.receive();
                drop(rx);
                let v = block_on(f);
                got.store(v.map(|x| x as u64).unwrap_or(0), SeqCst);
            }
            _ => {
                let v = with_cancellations(p_budget, || rx.receive());
                got.store(v.map(|x| x as u64).unwrap_or(0), SeqCst);
            }
        })
    };
    h_tx.join().unwrap();
    h_rx.join().unwrap();
    let (s, g) = (sent_ok.load(SeqCst), got.load(SeqCst));
    if g != u64::MAX && g != 0 && g != 7 {
        violation("C12", "wrong-value", format!("the receiver got {}", g));
    }
    if g == 7 && s != 1 {
        violation("C12", "value-from-nowhere", "the receiver got the value although no send succeeded".into());
    }
    if g == 0 && s == 1 {
        violation("C12", "sent-value-not-received", "send() succeeded and the receiver waited to the end, but its receive yielded None".into());
    }
    queues_must_be_empty("oneshot channel", obs.verif_snapshot(&mut |_| false));
}

fn t_oneshot(cfg: &Cfg) {
    if cfg_get(cfg, "mode", 0) == 3 {
        return t_oneshot_shared_single(cfg);
    }
    if cfg_get(cfg, "mode", 0) != 0 {
        return t_oneshot_borrowed(cfg);
    }
    let n = cfg_get(cfg, "threads", 2) as usize;
    let p_budget = cfg_get(cfg, "p_budget", 0) as u64;
    let (tx, rx) = sh::generic_oneshot_broadcast_channel::<M, u32>();
    let obs = tx.verif_observer();
    let got_none = Arc::new(AtomicUsize::new(0));
    let mut hs = Vec::new();
    for i in 0..n {
        let (rx, got_none) = (rx.clone(), got_none.clone());
        hs.push(thread::spawn(move || {
            // clone / drop churn of receiver handles while the sender sends
            let extra = rx.clone();
            if draw(2) == 0 {
                drop(extra);
                match with_cancellations(p_budget, || rx.receive()) {
                    Some(7) => {}
                    Some(x) => violation("C12", "wrong-value", format!("receiver {} got {}", i, x)),
                    None => {
                        got_none.fetch_add(1, SeqCst);
                    }
                }
            } else {
                drop(rx);
                if with_cancellations(p_budget, || extra.receive()).is_none() {
                    got_none.fetch_add(1, SeqCst);
                }
            }
        }));
    }
    thread::yield_now();
    // the main thread still holds `rx`: the channel must be open
    if tx.send(7).is_err() {
        violation("C11", "closed-while-handles-alive", "send failed although the sender and a receiver handle are alive".into());
    }
    for h in hs {
        h.join().unwrap();
    }
    if got_none.load(SeqCst) > 0 {
        violation("C12", "broadcast-missed", format!("the value was sent but {} receiver(s) got None", got_none.load(SeqCst)));
    }
    drop(rx);
    drop(tx);
    queues_must_be_empty("oneshot broadcast channel", obs.verif_snapshot(&mut |_| false));
}

fn cfg_oneshot(rng: &mut Rng) -> Cfg {
    let mut c = Cfg::new();
    base_cfg(rng, &mut c);
    // 0 = shared broadcast with receiver churn, 1 = borrowed single-consumer, 2 = borrowed broadcast,
    // 3 = shared single-consumer
    c.insert("mode".into(), rng.below(4) as i64);
    c.insert("orphan".into(), rng.pct(30) as i64);
    c
}

// ================================================================ T-state (shared: publishers and followers with handle churn)

/// drops `handle` right after the first poll of `fut` that returns Pending
struct DropHandleAfterFirstPending<F, H> {
    fut: F,
    handle: Option<H>,
}
impl<F: Future, H> Future for DropHandleAfterFirstPending<F, H> {
    type Output = F::Output;
    fn poll(self: Pin<&mut Self>, cx: &mut Context<'_>) -> Poll<F::Output> {
        // Safety: structural pinning of `fut`; `handle` is never pinned
        let this = unsafe { self.get_unchecked_mut() };
        let r = unsafe { Pin::new_unchecked(&mut this.fut) }.poll(cx);
        if r.is_pending() {
            if let Some(h) = this.handle.take() {
                super::count("handle_dropped_under_pending_future");
                drop(h);
            }
        }
        r
    }
}

/// "orphan" executions: a receive future outlives the handle it was made from. The follower has
/// seen the latest state, parks on something newer and then drops its handle — the last receiver
/// handle — while another thread drops the last sender handle. Whatever order the two drops take,
/// the channel ends up closed and the parked future is woken and yields None; a future that is
/// never woken is a deadlock (seeded change UA13: each side skips the close when the other side's
/// count is already zero, so two concurrent last drops close nothing).
fn t_state_orphan(cfg: &Cfg) {
    let pubs = cfg_get(cfg, "pubs", 3) as u64;
    let (tx, rx) = sh::generic_state_broadcast_channel::<M, u64>();
    let obs = tx.verif_observer();
    for k in 1..=pubs {
        if tx.send(k).is_err() {
            violation("C11", "closed-while-handles-alive", "send failed although sender and receiver handles are alive".into());
        }
    }
    let follower = thread::spawn(move || {
        let mut id = StateId::new();
        match rx.try_receive(id) {
            Some((nid, v)) => {
                if v != pubs {
                    violation("C13", "not-latest-state", format!("try_receive yields state {} but the last published state is {}", v, pubs));
                }
                id = nid;
            }
            None => {
                if pubs > 0 {
                    violation("C13", "latest-not-delivered", "try_receive(StateId::new()) yields nothing although states were published".into());
                }
            }
        }
        let extra = if draw(3) == 0 { Some(rx.clone()) } else { None };
        let fut = rx.receive(id);
        drop(extra);
        if let Some((_, v)) = block_on(FusedCheck { fut: DropHandleAfterFirstPendingFused(DropHandleAfterFirstPending { fut, handle: Some(rx) }) }) {
            violation("C13", "nothing-newer", format!("a receive for something newer than the latest state completed with state {} although nothing was sent", v));
        }
    });
    let closer = thread::spawn(move || {
        if draw(2) == 0 {
            thread::yield_now();
        }
        let extra = if draw(3) == 0 { Some(tx.clone()) } else { None };
        drop(tx);
        drop(extra);
    });
    follower.join().unwrap();
    closer.join().unwrap();
    let snap = obs.verif_snapshot(&mut |_| false);
    if snap.scalar("senders") != Some(0) || snap.scalar("receivers") != Some(0) {
        violation("C11", "handle-count", format!("every handle was dropped but the channel counts {:?} sender(s) / {:?} receiver(s)", snap.scalar("senders"), snap.scalar("receivers")));
    }
    queues_must_be_empty("state broadcast channel", snap);
}

struct DropHandleAfterFirstPendingFused<F, H>(DropHandleAfterFirstPending<F, H>);
impl<F: Future + futures_core::future::FusedFuture, H> Future for DropHandleAfterFirstPendingFused<F, H> {
    type Output = F::Output;
    fn poll(self: Pin<&mut Self>, cx: &mut Context<'_>) -> Poll<F::Output> {
        unsafe { self.map_unchecked_mut(|s| &mut s.0) }.poll(cx)
    }
}
impl<F: Future + futures_core::future::FusedFuture, H> futures_core::future::FusedFuture for DropHandleAfterFirstPendingFused<F, H> {
    fn is_terminated(&self) -> bool {
        self.0.fut.is_terminated()
    }
}

fn t_state(cfg: &Cfg) {
    if cfg_get(cfg, "orphan", 0) != 0 {
        return t_state_orphan(cfg);
    }
    let n = cfg_get(cfg, "threads", 2) as usize;
    let pubs = cfg_get(cfg, "pubs", 3) as u64;
    let p_budget = cfg_get(cfg, "p_budget", 0) as u64;
    // "converge" executions: the followers leave once they have seen the last publication and
    // the channel is closed only afterwards, so the wake-up for the last publication is the only
    // thing that can get a parked follower going again (a lost one is a deadlock, not something
    // the close repairs)
    let converge = pubs > 0 && cfg_get(cfg, "converge", 0) != 0;
    let (tx, rx) = sh::generic_state_broadcast_channel::<M, u64>();
    let obs = tx.verif_observer();
    let last_pub = Arc::new(AtomicU64::new(0));
    let mut hs = Vec::new();
    {
        let (tx, last_pub) = (tx.clone(), last_pub.clone());
        hs.push(thread::spawn(move || {
            for k in 1..=pubs {
                let t = if draw(3) == 0 { tx.clone() } else { tx.clone() };
                if t.send(k).is_err() {
                    violation("C11", "closed-while-handles-alive", "send failed although sender and receiver handles are alive".into());
                }
                last_pub.store(k, SeqCst);
                drop(t);
                thread::yield_now();
            }
        }));
    }
    let mut fs = Vec::new();
    for i in 0..n {
        let (rx, last_pub) = (rx.clone(), last_pub.clone());
        fs.push(thread::spawn(move || {
            // receiver handle churn while the publisher publishes
            let extra = rx.clone();
            thread::yield_now();
            drop(extra);
            let mut id = StateId::new();
            let mut last = 0u64;
            loop {
                match with_cancellations(p_budget, || rx.receive(id)) {
                    Some((nid, v)) => {
                        if !(nid > id) {
                            violation("C13", "id-not-increasing", format!("follower {} got a StateId that is not larger than the one it passed in", i));
                        }
                        if v <= last {
                            violation("C13", "state-went-back", format!("follower {} saw state {} after state {}", i, v, last));
                        }
                        id = nid;
                        last = v;
                        if converge && v == pubs {
                            break;
                        }
                    }
                    None => break,
                }
            }
            // (converge executions leave at the last publication, possibly before the publisher has noted it)
            if !converge && last != last_pub.load(SeqCst) {
                violation("C13", "did-not-converge", format!("follower {} ended on state {} but the last published state is {}", i, last, last_pub.load(SeqCst)));
            }
        }));
    }
    // publisher first, then the last sender handle goes away: the channel closes, followers finish
    let publisher = hs.pop().unwrap();
    publisher.join().unwrap();
    // what the channel itself says the latest state is
    if let Some((_, v)) = rx.try_receive(StateId::new()) {
        if v != last_pub.load(SeqCst) {
            violation("C13", "not-latest-state", format!("try_receive yields state {} but the last published state is {}", v, last_pub.load(SeqCst)));
        }
    } else if pubs > 0 {
        violation("C13", "latest-not-delivered", "try_receive(StateId::new()) yields nothing although states were published".into());
    }
    if converge {
        for f in fs.drain(..) {
            f.join().unwrap();
        }
    }
    drop(tx);
    for f in fs {
        f.join().unwrap();
    }
    drop(rx);
    let snap = obs.verif_snapshot(&mut |_| false);
    if snap.scalar("senders") != Some(0) || snap.scalar("receivers") != Some(0) {
        violation("C11", "handle-count", format!("every handle was dropped but the channel counts {:?} sender(s) / {:?} receiver(s)", snap.scalar("senders"), snap.scalar("receivers")));
    }
    queues_must_be_empty("state broadcast channel", snap);
}

fn cfg_state(rng: &mut Rng) -> Cfg {
    let mut c = Cfg::new();
    base_cfg(rng, &mut c);
    c.insert("pubs".into(), rng.range(0, 3));
    c.insert("converge".into(), rng.pct(50) as i64);
    c.insert("orphan".into(), rng.pct(20) as i64);
    c
}

// ================================================================ T-timer (ticker thread vs sleepers)

const TM_SET: u32 = 0;
const TM_CHECK: u32 = 1;
const TM_POLL: u32 = 2;
const TM_DROP: u32 = 3;

/// forwards to the real waker and tells the history which timer was woken
struct AttribWaker {
    inner: std::task::Waker,
    id: u32,
    woken: Arc<AtomicU64>,
}
impl std::task::Wake for AttribWaker {
    fn wake(self: Arc<Self>) {
        self.wake_by_ref()
    }
    fn wake_by_ref(self: &Arc<Self>) {
        self.woken.fetch_or(1u64 << (self.id & 63), SeqCst);
        self.inner.wake_by_ref();
    }
}

/// logs every poll (and the drop) of a timer future as one operation of the history
struct LoggedTimer<F> {
    fut: Option<F>,
    hist: Arc<History>,
    woken: Arc<AtomicU64>,
    thread: u32,
    id: u32,
    completed: bool,
}
impl<F: Future<Output = ()>> Future for LoggedTimer<F> {
    type Output = ();
    fn poll(self: Pin<&mut Self>, cx: &mut Context<'_>) -> Poll<()> {
        let this = unsafe { self.get_unchecked_mut() };
        let w = std::task::Waker::from(Arc::new(AttribWaker { inner: cx.waker().clone(), id: this.id, woken: this.woken.clone() }));
        let mut cx2 = Context::from_waker(&w);
        let inv = this.hist.stamp();
        let fut = unsafe { Pin::new_unchecked(this.fut.as_mut().unwrap()) };
        let r = fut.poll(&mut cx2);
        this.hist.record(inv, this.thread, TM_POLL, this.id, r.is_ready() as u32);
        if r.is_ready() {
            this.completed = true;
        }
        r
    }
}
impl<F> Drop for LoggedTimer<F> {
    fn drop(&mut self) {
        let inv = self.hist.stamp();
        self.fut = None;
        if !self.completed {
            self.hist.record(inv, self.thread, TM_DROP, self.id, 0);
        }
    }
}

fn t_timer(cfg: &Cfg) {
    let n = cfg_get(cfg, "threads", 2) as usize;
    let iters = cfg_get(cfg, "iters", 2) as usize;
    let p_budget = cfg_get(cfg, "p_budget", 0) as u64;
    let clock = ClockRef::claim(false);
    clock.set(100);
    let timer = Arc::new(GenericTimerService::<M>::new(clock.as_dyn()));
    let remaining = Arc::new(AtomicUsize::new(n));
    let hist = Arc::new(History::default());
    let woken = Arc::new(AtomicU64::new(0));
    let deadlines: Arc<StdMutex<Vec<u64>>> = Arc::new(StdMutex::new(Vec::new()));
    let mut hs = Vec::new();
    {
        let (timer, remaining, hist, woken) = (timer.clone(), remaining.clone(), hist.clone(), woken.clone());
        hs.push(thread::spawn(move || {
            // the driver: advances the simulated clock and expires timers until every sleeper is done
            while remaining.load(SeqCst) > 0 {
                let step = 1 + draw(8);
                let t = clock.now() + step;
                let inv = hist.stamp();
                clock.set(t);
                hist.record(inv, 0, TM_SET, t as u32, 0);
                woken.store(0, SeqCst);
                let inv = hist.stamp();
                timer.check_expirations();
                let mask = woken.swap(0, SeqCst);
                hist.record(inv, 0, TM_CHECK, 0, mask as u32);
                thread::yield_now();
            }
        }));
    }
    for i in 0..n {
        let (timer, remaining, hist, woken, deadlines) = (timer.clone(), remaining.clone(), hist.clone(), woken.clone(), deadlines.clone());
        hs.push(thread::spawn(move || {
            for _ in 0..iters {
                let deadline = clock.now() + draw(20);
                let id = {
                    let mut d = deadlines.lock().unwrap();
                    d.push(deadline);
                    (d.len() - 1) as u32
                };
                let budget = if draw(100) < p_budget { Some(draw(4) as u32) } else { None };
                let f = LoggedTimer { fut: Some(Timer::deadline(&*timer, deadline)), hist: hist.clone(), woken: woken.clone(), thread: 1 + i as u32, id, completed: false };
                let fired = match budget {
                    Some(b) => block_on(budgeted(f, b)).is_some(),
                    None => {
                        block_on(f);
                        true
                    }
                };
                if fired && clock.now() < deadline {
                    violation("C15", "early", format!("sleeper {} woke at clock {} before its deadline {}", i, clock.now(), deadline));
                }
            }
            remaining.fetch_sub(1, SeqCst);
        }));
    }
    for h in hs {
        h.join().unwrap();
    }
    if timer.next_expiration().is_some() {
        violation("C15", "next-expiration", "every timer future is gone but next_expiration() is not None".into());
    }
    queues_must_be_empty("timer", timer.verif_snapshot(&mut |_| false));
    // linearizability against the sequential timer model: (now, registered, expired)
    let ops = hist.ops.lock().unwrap().clone();
    let dl = deadlines.lock().unwrap().clone();
    if ops.len() <= 60 && dl.len() <= 30 {
        let step = move |st: &(u64, u32, u32), op: &LinOp| -> Option<(u64, u32, u32)> {
            let (now, reg, exp) = *st;
            let bit = 1u32 << (op.arg & 31);
            match op.kind {
                TM_SET => Some((op.arg as u64, reg, exp)),
                TM_CHECK => {
                    let mut due = 0u32;
                    for (i, d) in dl.iter().enumerate() {
                        if reg & (1 << i) != 0 && *d <= now {
                            due |= 1 << i;
                        }
                    }
                    if op.res != due {
                        return None;
                    }
                    Some((now, reg & !due, exp | due))
                }
                TM_POLL => {
                    let ready = op.res != 0;
                    if exp & bit != 0 {
                        if ready {
                            Some((now, reg, exp & !bit))
                        } else {
                            None
                        }
                    } else if reg & bit != 0 {
                        if ready {
                            None
                        } else {
                            Some(*st)
                        }
                    } else {
                        let due = dl[(op.arg & 31) as usize] <= now;
                        if ready != due {
                            None
                        } else if ready {
                            Some(*st)
                        } else {
                            Some((now, reg | bit, exp))
                        }
                    }
                }
                _ => Some((now, reg & !bit, exp & !bit)),
            }
        };
        if let Err(k) = lin::check(&ops, (100u64, 0u32, 0u32), &step) {
            let mut sorted = ops.clone();
            sorted.sort_by_key(|o| o.inv);
            let names = ["set_clock", "check_expirations", "poll", "drop"];
            let dl2 = deadlines.lock().unwrap().clone();
            let txt: Vec<String> = sorted.iter().map(|o| format!("[{}..{}] t{} {}({})={}", o.inv, o.ret, o.thread, names[o.kind as usize], o.arg, o.res)).collect();
            violation("C15", "not-linearizable", format!("the concurrent history of clock steps, check_expirations() (result = set of woken timers) and timer polls has no sequential explanation (at most {} of {} operations can be ordered); deadlines {:?}; history: {}", k, ops.len(), dl2, txt.join("; ")));
        }
    }
}

fn cfg_timer(rng: &mut Rng) -> Cfg {
    let mut c = Cfg::new();
    base_cfg(rng, &mut c);
    c
}

// ================================================================ T-handles (last handles of both sides dropped concurrently)

/// harness-side count of the live handles of one side; the decrement happens after `drop` returned
struct Side {
    live: AtomicUsize,
    name: &'static str,
}
impl Side {
    fn new(name: &'static str, n: usize) -> Arc<Side> {
        Arc::new(Side { live: AtomicUsize::new(n), name })
    }
    fn cloning(&self) {
        self.live.fetch_add(1, SeqCst);
    }
    /// call right after a handle of this side was dropped; `closed` reads the channel state
    fn dropped(&self, closed: &dyn Fn() -> bool) {
        if self.live.fetch_sub(1, SeqCst) == 1 && !closed() {
            violation("C11", "not-closed-after-last-handle", format!("the drop of the last {} handle has returned but the channel is not closed", self.name));
        }
    }
}

macro_rules! handles_scenario {
    ($tx:ident, $rx:ident, $obs:ident, $closed_key:expr, $recv:expr, $tx_clonable:expr, $what:expr) => {{
        let obs = Arc::new($obs);
        let txs = Side::new("sender", 1);
        let rxs = Side::new("receiver", 1);
        let closed = {
            let obs = obs.clone();
            move || obs.verif_snapshot(&mut |_| false).scalar($closed_key) == Some(1)
        };
        let mut hs = Vec::new();
        // a witness whose receive future outlives every handle: it must be woken by the close
        {
            rxs.cloning();
            let r = $rx.clone();
            let (rxs, closed) = (rxs.clone(), closed.clone());
            hs.push(thread::spawn(move || {
                let f = $recv(&r);
                drop(r);
                rxs.dropped(&closed);
                let _ = block_on(f);
            }));
        }
        // churn on the receiver side, then the last receiver goes away
        {
            let (rxs, closed) = (rxs.clone(), closed.clone());
            let rx = $rx;
            hs.push(thread::spawn(move || {
                if draw(2) == 0 {
                    rxs.cloning();
                    let extra = rx.clone();
                    thread::yield_now();
                    drop(extra);
                    rxs.dropped(&closed);
                }
                drop(rx);
                rxs.dropped(&closed);
            }));
        }
        // the last sender goes away concurrently
        {
            let (txs, closed) = (txs.clone(), closed.clone());
            let tx = $tx;
            hs.push(thread::spawn(move || {
                thread::yield_now();
                drop(tx);
                txs.dropped(&closed);
            }));
        }
        let _ = $tx_clonable;
        for h in hs {
            h.join().unwrap();
        }
        if !closed() {
            violation("C11", "not-closed-after-last-handle", format!("{}: every handle was dropped but the channel is not closed", $what));
        }
        let snap = obs.verif_snapshot(&mut |_| false);
        queues_must_be_empty($what, snap);
    }};
}

/// payload whose drops are counted
struct Counted {
    tag: u64,
    drops: Arc<Vec<AtomicUsize>>,
}
impl Drop for Counted {
    fn drop(&mut self) {
        self.drops[self.tag as usize].fetch_add(1, SeqCst);
    }
}

/// Shared mpmc channel with values in flight while the last handles of both sides go away
/// concurrently: a full (or unbuffered) channel, a parked send future that outlives every
/// handle, a try_send racing with the drop of the last receiver. Afterwards every value that was
/// accepted and not received must already be gone (C11: the last receiver discards the buffer,
/// immediately), and the parked send must fail and hand its value back (C08, C11).
fn t_handles_values(cfg: &Cfg) {
    let cap = cfg_get(cfg, "cap", 1) as usize;
    let (tx, rx) = sh::generic_channel::<M, Counted, GrowingHeapBuf<Counted>>(cap);
    let obs = tx.verif_observer();
    let drops: Arc<Vec<AtomicUsize>> = Arc::new((0..8).map(|_| AtomicUsize::new(0)).collect());
    let mk = |tag: u64| Counted { tag, drops: drops.clone() };
    // fill the buffer
    let mut accepted: Vec<u64> = Vec::new();
    for i in 0..cap as u64 {
        if tx.try_send(mk(i)).is_ok() {
            accepted.push(i);
        }
    }
    // a send that has to park (buffer full / unbuffered); the future keeps the channel alive
    let parked_tag = 5u64;
    let mut parked = Box::pin(tx.send(mk(parked_tag)));
    {
        let w = futures_task_noop();
        let mut cx = Context::from_waker(&w);
        if parked.as_mut().poll(&mut cx).is_ready() {
            violation("C09", "send-into-full-channel-completed", "a send on a full / unbuffered channel without receiver completed at once".into());
        }
    }
    let racing_ok = Arc::new(AtomicUsize::new(0));
    let mut hs = Vec::new();
    {
        let rx = rx;
        hs.push(thread::spawn(move || {
            if draw(2) == 0 {
                let extra = rx.clone();
                thread::yield_now();
                drop(extra);
            }
            drop(rx);
        }));
    }
    {
        let tx2 = tx.clone();
        let (racing_ok, drops) = (racing_ok.clone(), drops.clone());
        hs.push(thread::spawn(move || {
            thread::yield_now();
            // races with the drop of the last receiver: accepted (then it must be discarded
            // with the buffer) or refused (then it is handed back)
            match tx2.try_send(Counted { tag: 6, drops: drops.clone() }) {
                Ok(()) => {
                    racing_ok.store(1, SeqCst);
                }
                Err(e) => drop(e),
            }
            drop(tx2);
        }));
    }
    {
        let tx = tx;
        hs.push(thread::spawn(move || {
            thread::yield_now();
            drop(tx);
        }));
    }
    for h in hs {
        h.join().unwrap();
    }
    if racing_ok.load(SeqCst) == 1 {
        accepted.push(6);
    }
    // every handle is gone; only `parked` still references the channel
    for t in &accepted {
        let d = drops[*t as usize].load(SeqCst);
        if d != 1 {
            violation_multi(
                &[("C11", "buffer-not-discarded-under-threads"), ("C08", "accepted-value-neither-received-nor-dropped")],
                format!("value {} was accepted (send returned Ok), nobody received it, the last receiver handle is gone - and it was dropped {} time(s) instead of once (a pending send future still keeps the channel alive)", t, d),
            );
        }
    }
    // every other thread has finished: the state is final and one poll decides
    let w = futures_task_noop();
    let mut cx = Context::from_waker(&w);
    match parked.as_mut().poll(&mut cx) {
        Poll::Ready(Err(e)) => {
            if e.0.tag != parked_tag {
                violation("C08", "wrong-value-handed-back", format!("the parked send got value {} back", e.0.tag));
            }
        }
        Poll::Ready(Ok(())) => violation_multi(
            &[("C08", "accepted-without-receiver"), ("C11", "send-succeeded-after-close")],
            "a parked send completed with Ok(()) after the last receiver handle (and every sender handle) was dropped: its value can never be received".into(),
        ),
        Poll::Pending => violation_multi(
            &[("C08", "value-stuck-in-sender"), ("C11", "not-closed-after-last-handle")],
            "every sender and receiver handle was dropped, but a parked send stays pending: its value is neither received nor handed back".into(),
        ),
    }
    drop(parked);
    let snap = obs.verif_snapshot(&mut |_| false);
    if snap.scalar("is_closed") != Some(1) {
        violation("C11", "not-closed-after-last-handle", "every handle was dropped but the channel is not closed".into());
    }
    queues_must_be_empty("shared mpmc channel", snap);
}

fn futures_task_noop() -> std::task::Waker {
    struct Noop;
    impl std::task::Wake for Noop {
        fn wake(self: Arc<Self>) {}
    }
    std::task::Waker::from(Arc::new(Noop))
}

fn t_handles(cfg: &Cfg) {
    if cfg_get(cfg, "kind", 0) == 3 {
        return t_handles_values(cfg);
    }
    match cfg_get(cfg, "kind", 0) {
        0 => {
            let (tx, rx) = sh::generic_channel::<M, u64, GrowingHeapBuf<u64>>(1);
            let o = tx.verif_observer();
            handles_scenario!(tx, rx, o, "is_closed", |r: &sh::GenericReceiver<M, u64, GrowingHeapBuf<u64>>| r.receive(), true, "shared mpmc channel")
        }
        1 => {
            let (tx, rx) = sh::generic_state_broadcast_channel::<M, u64>();
            let o = tx.verif_observer();
            handles_scenario!(tx, rx, o, "is_closed", |r: &sh::GenericStateReceiver<M, u64>| r.receive(StateId::new()), true, "shared state broadcast channel")
        }
        _ => {
            let (tx, rx) = sh::generic_oneshot_broadcast_channel::<M, u64>();
            let o = tx.verif_observer();
            handles_scenario!(tx, rx, o, "is_fulfilled", |r: &sh::GenericOneshotBroadcastReceiver<M, u64>| r.receive(), false, "shared oneshot broadcast channel")
        }
    }
}

fn cfg_handles(rng: &mut Rng) -> Cfg {
    let mut c = Cfg::new();
    base_cfg(rng, &mut c);
    c.insert("kind".into(), rng.below(4) as i64);
    c.insert("cap".into(), rng.below(3) as i64);
    c
}

// ================================================================ registry

static T_MUTEX: ThreadScenDef = ThreadScenDef { name: "T-mutex", props: &["C02", "C03", "C04", "C01"], draw_cfg: cfg_mutex, body: t_mutex, liveness_prop: "C03" };
static T_SEM: ThreadScenDef = ThreadScenDef { name: "T-sem", props: &["C05", "C06", "C07", "C01"], draw_cfg: cfg_sem, body: t_sem, liveness_prop: "C06" };
static T_CHAN: ThreadScenDef = ThreadScenDef { name: "T-chan", props: &["C08", "C09", "C10", "C01"], draw_cfg: cfg_chan, body: t_chan, liveness_prop: "C10" };
static T_CHAN_SHARED: ThreadScenDef = ThreadScenDef { name: "T-chan-shared", props: &["C08", "C09", "C10", "C11", "C01"], draw_cfg: cfg_chan, body: t_chan_shared, liveness_prop: "C10" };
static T_EVENT: ThreadScenDef = ThreadScenDef { name: "T-event", props: &["C14", "C01"], draw_cfg: cfg_event, body: t_event, liveness_prop: "C14" };
static T_ONESHOT: ThreadScenDef = ThreadScenDef { name: "T-oneshot", props: &["C12", "C11", "C17", "C01"], draw_cfg: cfg_oneshot, body: t_oneshot, liveness_prop: "C12" };
static T_STATE: ThreadScenDef = ThreadScenDef { name: "T-state", props: &["C13", "C11", "C17", "C01"], draw_cfg: cfg_state, body: t_state, liveness_prop: "C13" };
static T_HANDLES: ThreadScenDef = ThreadScenDef { name: "T-handles", props: &["C11", "C08", "C01"], draw_cfg: cfg_handles, body: t_handles, liveness_prop: "C11" };
static T_TIMER: ThreadScenDef = ThreadScenDef { name: "T-timer", props: &["C15", "C01"], draw_cfg: cfg_timer, body: t_timer, liveness_prop: "C15" };

pub fn all() -> Vec<&'static ThreadScenDef> {
    vec![&T_MUTEX, &T_SEM, &T_CHAN, &T_CHAN_SHARED, &T_EVENT, &T_ONESHOT, &T_STATE, &T_TIMER, &T_HANDLES]
}
