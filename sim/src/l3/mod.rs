//! L3 — thread simulator: the thread-safe and shared flavours under a scheduler the
//! simulator owns. Threads are shuttle coroutines released one at a time; *which* one runs is
//! decided by `SeededScheduler` below from the run PRNG (generate) or from a recorded
//! decision list (replay). The library's internal lock is `SimRawMutex` (every lock / unlock
//! is a scheduling point), the handle counters carry guarded `sched_point` hooks.
//! A lost wake-up is a shuttle deadlock ("no runnable task, tasks unfinished").

use crate::core::{cfg_get, Cfg, Fail, Stats};
use crate::rng::{Hasher64, Rng};
use shuttle::scheduler::{Schedule, Scheduler, Task, TaskId};
use std::collections::BTreeMap;
use std::sync::{Arc, Mutex};

pub mod scen;

// ---------------------------------------------------------------- block_on with a switching waker

/// One waker object per poll (when `fresh_wakers` is drawn): only a wake-up delivered through
/// the waker of the *latest* poll counts, exactly as the properties say ("through the waker
/// supplied at that last poll"). A wake-up through an older waker still unparks the thread
/// (it is the same task), but the thread parks again without polling.
struct L3Waker {
    thread: shuttle::thread::Thread,
    slot: Arc<WakeSlot>,
    generation: u64,
}
struct WakeSlot {
    current: std::sync::atomic::AtomicU64,
    notified: std::sync::atomic::AtomicBool,
    stale_wakes: std::sync::atomic::AtomicU64,
}
impl std::task::Wake for L3Waker {
    fn wake(self: Arc<Self>) {
        self.wake_by_ref()
    }
    fn wake_by_ref(self: &Arc<Self>) {
        use std::sync::atomic::Ordering::SeqCst;
        if self.generation == self.slot.current.load(SeqCst) {
            self.slot.notified.store(true, SeqCst);
        } else {
            self.slot.stale_wakes.fetch_add(1, SeqCst);
        }
        if std::thread::panicking() {
            return;
        }
        // `unpark` is a scheduling point *before* the token is delivered: wake-ups issued
        // inside a critical section let other threads run in the middle of it, exactly as a
        // preemption of the waking thread would
        self.thread.unpark();
    }
}

thread_local! {
    /// what the thread simulator injected (all coroutines of an execution run on one OS thread)
    static L3_COUNTS: std::cell::RefCell<BTreeMap<&'static str, u64>> = const { std::cell::RefCell::new(BTreeMap::new()) };
}

/// counts one injected fault / schedule feature of the current worker thread
pub fn count(kind: &'static str) {
    L3_COUNTS.with(|c| *c.borrow_mut().entry(kind).or_insert(0) += 1);
}

fn take_counts() -> BTreeMap<&'static str, u64> {
    L3_COUNTS.with(|c| std::mem::take(&mut *c.borrow_mut()))
}

/// Runs a future on the current simulated thread. The future lives in a quarantine cell: after
/// it is dropped its memory is poisoned and checked for later writes at the end of the run.
pub fn block_on<F: std::future::Future>(fut: F) -> F::Output {
    use std::sync::atomic::Ordering::SeqCst;
    let mut cell = crate::quarantine::QCell::new(fut, "future awaited by a simulated thread");
    let slot = Arc::new(WakeSlot { current: std::sync::atomic::AtomicU64::new(0), notified: std::sync::atomic::AtomicBool::new(false), stale_wakes: std::sync::atomic::AtomicU64::new(0) });
    let thread = shuttle::thread::current();
    // drawn per await: keep one waker (will_wake fast path) or hand out a new one at every poll
    let fresh_wakers = {
        use shuttle::rand::Rng as _;
        shuttle::rand::thread_rng().gen::<u64>() % 2 == 0
    };
    let mut generation = 0u64;
    let mut waker = std::task::Waker::from(Arc::new(L3Waker { thread: thread.clone(), slot: slot.clone(), generation }));
    // a few spurious re-polls per await (an executor may poll a task that nobody woke)
    let mut spurious_left = {
        use shuttle::rand::Rng as _;
        let r = shuttle::rand::thread_rng().gen::<u64>();
        if r % 3 == 0 {
            1 + (r >> 8) % 3
        } else {
            0
        }
    };
    loop {
        let mut cx = std::task::Context::from_waker(&waker);
        if let std::task::Poll::Ready(v) = cell.pin().poll(&mut cx) {
            return v;
        }
        if spurious_left > 0 && !slot.notified.load(SeqCst) {
            // poll again without having been woken, after letting other threads run
            spurious_left -= 1;
            count("spurious_poll");
            shuttle::thread::yield_now();
            slot.notified.store(false, SeqCst);
        } else {
            while !slot.notified.swap(false, SeqCst) {
                shuttle::thread::park();
            }
        }
        if fresh_wakers {
            count("waker_swap");
            generation += 1;
            slot.current.store(generation, SeqCst);
            waker = std::task::Waker::from(Arc::new(L3Waker { thread: thread.clone(), slot: slot.clone(), generation }));
        }
    }
}

/// End-of-execution C01 oracle: nothing wrote into the memory of a dropped future.
pub fn check_dropped_futures() {
    if let Some(msg) = crate::quarantine::check_and_release() {
        violation("C01", "write-after-drop", msg);
    }
}

// ---------------------------------------------------------------- the lock seam

pub struct SimRawMutex {
    flag: std::sync::atomic::AtomicBool,
    gate: shuttle::sync::Mutex<()>,
    cv: shuttle::sync::Condvar,
}

unsafe impl lock_api::RawMutex for SimRawMutex {
    #[allow(clippy::declare_interior_mutable_const)]
    const INIT: SimRawMutex = SimRawMutex { flag: std::sync::atomic::AtomicBool::new(false), gate: shuttle::sync::Mutex::new(()), cv: shuttle::sync::Condvar::new() };
    type GuardMarker = lock_api::GuardSend;

    fn lock(&self) {
        use std::sync::atomic::Ordering::SeqCst;
        if std::thread::panicking() {
            // a library panic is unwinding through a guard: no scheduling points any more
            self.flag.store(true, SeqCst);
            return;
        }
        let mut g = self.gate.lock().unwrap();
        while self.flag.load(SeqCst) {
            g = self.cv.wait(g).unwrap();
        }
        self.flag.store(true, SeqCst);
        drop(g);
    }
    fn try_lock(&self) -> bool {
        use std::sync::atomic::Ordering::SeqCst;
        if std::thread::panicking() {
            return !self.flag.swap(true, SeqCst);
        }
        let g = self.gate.lock().unwrap();
        let ok = !self.flag.swap(true, SeqCst);
        drop(g);
        ok
    }
    unsafe fn unlock(&self) {
        use std::sync::atomic::Ordering::SeqCst;
        if std::thread::panicking() {
            self.flag.store(false, SeqCst);
            return;
        }
        let g = self.gate.lock().unwrap();
        self.flag.store(false, SeqCst);
        drop(g);
        self.cv.notify_one();
    }
}

// ---------------------------------------------------------------- H5 hook

thread_local! {
    static IN_L3: std::cell::Cell<bool> = const { std::cell::Cell::new(false) };
}

fn sched_hook(_site: &'static str) {
    if IN_L3.with(|f| f.get()) {
        shuttle::thread::yield_now();
    }
}

pub fn install_sched_hook() {
    futures_intrusive::verif::set_sched_hook(Some(sched_hook));
}

// ---------------------------------------------------------------- scheduler

#[derive(Default, Clone)]
pub struct Trace {
    pub decisions: Vec<u32>,
    pub draws: Vec<u64>,
}

/// State shared between the scheduler (owned by shuttle's Runner) and the batch driver.
#[derive(Default)]
pub struct Shared {
    pub cfg: Cfg,
    pub run_index: u64,
    pub trace: Trace,
    pub finished_runs: u64,
    pub fp: u64,
    pub steps: u64,
    pub steps_total: u64,
    pub preemptions: u64,
    pub run_preemptions: u64,
    /// order-independent aggregate of (schedule fingerprint × run index) over finished executions
    pub hash_xor: u64,
    /// fingerprints of the finished executions that had at least one preemption
    pub fps: Vec<u64>,
}

pub struct SeededScheduler {
    shared: Arc<Mutex<Shared>>,
    def: &'static ThreadScenDef,
    seed: u64,
    next_run: u64,
    end_run: u64,
    over: Cfg,
    rng: Rng,
    stick: u64,
    /// PCT mode (Burckhardt et al.): 0 = random walk with stickiness; d >= 1 = strict
    /// priorities with d - 1 priority change points at random steps
    pct_depth: u64,
    pct_prio: Vec<u64>,
    pct_changes: Vec<u64>,
    pct_step: u64,
    pct_low: u64,
    replay: Option<Trace>,
    replay_cfg: Cfg,
    pos_d: usize,
    pos_r: usize,
    started: bool,
    fp: Hasher64,
    idx_file: Option<std::fs::File>,
    /// write-ahead log of decisions (`d n`) and draws (`r n`) for crash isolation
    pub oplog: Option<std::fs::File>,
}

impl SeededScheduler {
    pub fn generate(def: &'static ThreadScenDef, seed: u64, first_run: u64, end_run: u64, over: Cfg, shared: Arc<Mutex<Shared>>) -> Self {
        SeededScheduler { shared, def, seed, next_run: first_run, end_run, over, rng: Rng::new(0), stick: 0, pct_depth: 0, pct_prio: vec![], pct_changes: vec![], pct_step: 0, pct_low: 0, replay: None, replay_cfg: Cfg::new(), pos_d: 0, pos_r: 0, started: false, fp: Hasher64::default(), idx_file: None, oplog: None }
    }
    pub fn replay(def: &'static ThreadScenDef, cfg: Cfg, trace: Trace, shared: Arc<Mutex<Shared>>) -> Self {
        SeededScheduler { shared, def, seed: 0, next_run: 0, end_run: 0, over: Cfg::new(), rng: Rng::new(0x7a11_bac4), stick: 0, pct_depth: 0, pct_prio: vec![], pct_changes: vec![], pct_step: 0, pct_low: 0, replay: Some(trace), replay_cfg: cfg, pos_d: 0, pos_r: 0, started: false, fp: Hasher64::default(), idx_file: None, oplog: None }
    }
    fn finish_previous(&mut self) {
        if self.started {
            let mut s = self.shared.lock().unwrap();
            s.finished_runs += 1;
            s.fp = self.fp.get();
            let (fp, run) = (s.fp, s.run_index);
            s.hash_xor ^= fp.wrapping_mul(run | 1);
            if s.run_preemptions > 0 {
                let fp = s.fp;
                s.fps.push(fp);
            }
            s.steps_total += s.steps;
        }
    }
}

pub fn draw_run_cfg(def: &ThreadScenDef, seed: u64, run: u64, over: &Cfg) -> (Cfg, Rng) {
    let mut rng = Rng::for_run(seed, def.name, run);
    let mut cfg = (def.draw_cfg)(&mut rng);
    for (k, v) in over {
        cfg.insert(k.clone(), *v);
    }
    (cfg, rng)
}

impl Scheduler for SeededScheduler {
    fn new_execution(&mut self) -> Option<Schedule> {
        self.finish_previous();
        self.fp = Hasher64::default();
        self.pos_d = 0;
        self.pos_r = 0;
        if self.replay.is_some() {
            if self.started {
                return None;
            }
            self.started = true;
            let mut s = self.shared.lock().unwrap();
            s.cfg = self.replay_cfg.clone();
            s.trace = Trace::default();
            s.steps = 0;
            return Some(Schedule::new(0));
        }
        while self.next_run < self.end_run && crate::core::skip_run(self.next_run) {
            self.next_run += 1;
        }
        if self.next_run >= self.end_run {
            return None;
        }
        let run = self.next_run;
        self.next_run += 1;
        self.started = true;
        if let Some(f) = &self.idx_file {
            use std::os::unix::fs::FileExt;
            let _ = f.write_at(&run.to_le_bytes(), 0);
        }
        let (cfg, rng) = draw_run_cfg(self.def, self.seed, run, &self.over);
        self.rng = rng;
        self.stick = cfg_get(&cfg, "stick", 50) as u64;
        self.pct_depth = cfg_get(&cfg, "pct_depth", 0) as u64;
        self.pct_prio.clear();
        self.pct_changes.clear();
        self.pct_step = 0;
        self.pct_low = 0;
        let s_cfg_tmp = cfg.clone();
        let mut s = self.shared.lock().unwrap();
        if self.pct_depth > 0 {
            count("pct_schedule");
            // expected length: part of the run's configuration (a running mean of the batch
            // would make a run depend on which runs its worker executed before)
            let est = cfg_get(&s_cfg_tmp, "pct_len", 200).max(8) as u64;
            for _ in 1..self.pct_depth {
                let at = self.rng.below(est);
                self.pct_changes.push(at);
            }
        }
        s.cfg = cfg;
        s.run_index = run;
        s.trace = Trace::default();
        s.steps = 0;
        s.run_preemptions = 0;
        Some(Schedule::new(run))
    }

    fn next_task(&mut self, runnable: &[&Task], current: Option<TaskId>, _is_yielding: bool) -> Option<TaskId> {
        crate::core::heartbeat();
        let mut ids: Vec<usize> = runnable.iter().map(|t| usize::from(t.id())).collect();
        ids.sort_unstable();
        let cur = current.map(usize::from);
        let chosen = match &self.replay {
            Some(tr) => {
                let want = tr.decisions.get(self.pos_d).map(|d| *d as usize);
                self.pos_d += 1;
                match want {
                    Some(w) if ids.contains(&w) => w,
                    // tolerant replay: the minimiser edits schedules, and a trace recorded on one
                    // tree may be replayed on another. The fallback must be fair (a fixed
                    // choice can spin on one polling thread forever): fixed-seed random.
                    _ => ids[self.rng.below(ids.len() as u64) as usize],
                }
            }
            None if self.pct_depth > 0 => {
                for id in &ids {
                    while self.pct_prio.len() <= *id {
                        // initial priorities: random, all above the "lowered" range
                        let p = (1 << 32) + (self.rng.next() >> 32);
                        self.pct_prio.push(p);
                    }
                }
                if let Some(c) = cur {
                    if c < self.pct_prio.len() && (self.pct_changes.contains(&self.pct_step) || _is_yielding) {
                        // change point (or a spinning task): the running task drops below everyone
                        self.pct_low += 1;
                        self.pct_prio[c] = (1 << 31) - self.pct_low;
                    }
                }
                self.pct_step += 1;
                *ids.iter().max_by_key(|id| self.pct_prio[**id]).unwrap()
            }
            None => {
                let stay = cur.filter(|c| ids.contains(c));
                match stay {
                    Some(c) if self.rng.pct(self.stick) => c,
                    _ => ids[self.rng.below(ids.len() as u64) as usize],
                }
            }
        };
        self.fp.add(chosen as u64);
        if let Some(f) = &mut self.oplog {
            use std::io::Write;
            let _ = writeln!(f, "d {}", chosen);
        }
        let mut s = self.shared.lock().unwrap();
        s.trace.decisions.push(chosen as u32);
        s.steps += 1;
        if let Some(c) = cur {
            if c != chosen && ids.contains(&c) {
                s.preemptions += 1;
                s.run_preemptions += 1;
            }
        }
        Some(TaskId::from(chosen))
    }

    fn next_u64(&mut self) -> u64 {
        let v = match &self.replay {
            Some(tr) => {
                let v = tr.draws.get(self.pos_r).copied().unwrap_or(0);
                self.pos_r += 1;
                v
            }
            None => self.rng.next(),
        };
        if let Some(f) = &mut self.oplog {
            use std::io::Write;
            let _ = writeln!(f, "r {}", v);
        }
        self.shared.lock().unwrap().trace.draws.push(v);
        v
    }
}

// ---------------------------------------------------------------- scenarios and batches

pub struct ThreadScenDef {
    pub name: &'static str,
    pub props: &'static [&'static str],
    pub draw_cfg: fn(&mut Rng) -> Cfg,
    /// the program under test; reads its configuration through `current_cfg()`
    pub body: fn(&Cfg),
    pub liveness_prop: &'static str,
}

pub fn scenarios() -> Vec<&'static ThreadScenDef> {
    scen::all()
}
pub fn scen_by_name(name: &str) -> Option<&'static ThreadScenDef> {
    scenarios().into_iter().find(|s| s.name == name)
}

thread_local! {
    /// the first scenario-side violation of the current execution (all coroutines of an
    /// execution run on one OS thread)
    static FIRST_VIOLATION: std::cell::RefCell<Option<Vec<(String, String, String)>>> = const { std::cell::RefCell::new(None) };
}

/// Scenario-side assertion. Panicking inside a simulated thread would unwind through guards
/// that need scheduling points (a second panic aborts the process), so the violation is
/// recorded and the thread parks forever; the execution then ends in shuttle's deadlock /
/// step-bound report, which is raised outside every simulated stack.
pub fn violation(prop: &str, oracle: &str, msg: String) -> ! {
    violation_multi(&[(prop, oracle)], msg)
}

/// one observation that is evidence against several properties
pub fn violation_multi(props: &[(&str, &str)], msg: String) -> ! {
    FIRST_VIOLATION.with(|v| {
        let mut v = v.borrow_mut();
        if v.is_none() {
            *v = Some(props.iter().map(|(p, o)| (p.to_string(), o.to_string(), msg.clone())).collect());
        }
    });
    loop {
        shuttle::thread::park();
    }
}

fn take_violation() -> Option<Vec<(String, String, String)>> {
    FIRST_VIOLATION.with(|v| v.borrow_mut().take())
}

fn classify(def: &ThreadScenDef, msg: &str, step: u64) -> Vec<Fail> {
    let mk = |prop: &str, oracle: &str, m: String| vec![Fail { prop: prop.into(), oracle: oracle.into(), msg: m, at_op: step as usize, fatal: true }];
    if let Some(vs) = take_violation() {
        return vs.into_iter().map(|(p, o, m)| Fail { prop: p, oracle: o, msg: m, at_op: step as usize, fatal: true }).collect();
    }
    if msg.contains("deadlock!") {
        return mk(def.liveness_prop, "deadlock", format!("no thread is runnable but threads have not finished: a wake-up was lost ({})", msg.lines().next().unwrap_or("")));
    }
    if msg.contains("exceeded max_steps") {
        return mk(def.liveness_prop, "step-bound", "the execution did not finish within the step bound (livelock or lost wake-up with a polling thread)".into());
    }
    mk("C01", "panic", format!("a thread panicked inside the library on a contract-respecting program: {}", msg.lines().next().unwrap_or("")))
}

pub const MAX_STEPS: usize = 30_000;

fn shuttle_config() -> shuttle::Config {
    let mut c = shuttle::Config::new();
    c.failure_persistence = shuttle::FailurePersistence::None;
    c.max_steps = shuttle::MaxSteps::FailAfter(MAX_STEPS);
    c.silence_warnings = true;
    c.stack_size = 0x20000;
    c.ungraceful_shutdown_config.immediately_return_on_panic = true;
    c
}

pub struct RunResult {
    pub fails: Vec<Fail>,
    pub trace: Trace,
    pub cfg: Cfg,
    pub steps: u64,
}

/// Runs executions until the scheduler stops or one panics. Returns the failure, if any.
fn drive(def: &'static ThreadScenDef, sched: SeededScheduler, shared: &Arc<Mutex<Shared>>) -> Option<Vec<Fail>> {
    let sh2 = shared.clone();
    let body = def.body;
    crate::core::QUIET_PANICS.with(|q| q.set(true));
    crate::core::take_first_panic();
    take_violation();
    crate::quarantine::reset();
    IN_L3.with(|f| f.set(true));
    let res = std::panic::catch_unwind(std::panic::AssertUnwindSafe(|| {
        let runner = shuttle::Runner::new(sched, shuttle_config());
        runner.run(move || {
            let cfg = sh2.lock().unwrap().cfg.clone();
            crate::quarantine::reset();
            body(&cfg);
            check_dropped_futures();
        });
    }));
    IN_L3.with(|f| f.set(false));
    crate::core::QUIET_PANICS.with(|q| q.set(false));
    match res {
        Ok(()) => None,
        Err(_) => {
            let msg = crate::core::take_first_panic().unwrap_or_else(|| "<no panic message>".into());
            let step = shared.lock().unwrap().steps;
            Some(classify(def, &msg, step))
        }
    }
}

pub struct L3Found {
    pub run_index: u64,
    pub cfg: Cfg,
    pub trace: Trace,
    pub fails: Vec<Fail>,
}

#[derive(Default)]
pub struct L3Batch {
    pub runs: u64,
    pub stats: Stats,
    pub nontrivial: std::collections::HashSet<u64>,
    pub found: Vec<L3Found>,
    pub notes: BTreeMap<String, u64>,
    pub samples: Vec<serde_json::Value>,
    pub steps: u64,
    pub preemptions: u64,
    pub hash_xor: u64,
}

#[allow(clippy::too_many_arguments)]
pub fn run_batch(def: &'static ThreadScenDef, seed: u64, first_run: u64, runs: u64, gate: &str, threads: usize, over: &Cfg, stop_on_first: bool, max_found: usize, idx_dir: Option<&str>, oplog: Option<&str>) -> L3Batch {
    use std::sync::atomic::{AtomicBool, AtomicU64, Ordering};
    let next = AtomicU64::new(0);
    let stop = AtomicBool::new(false);
    let merged = Mutex::new(L3Batch::default());
    const CHUNK: u64 = 512;
    std::thread::scope(|sc| {
        for t in 0..threads.max(1) {
            let (next, stop, merged) = (&next, &stop, &merged);
            sc.spawn(move || {
                let idx_path = idx_dir.map(|d| format!("{}/t{}", d, t));
                let mut out = L3Batch::default();
                loop {
                    if stop.load(Ordering::Relaxed) {
                        break;
                    }
                    let base = next.fetch_add(CHUNK, Ordering::Relaxed);
                    if base >= runs {
                        break;
                    }
                    let mut a = first_run + base;
                    let b = first_run + (base + CHUNK).min(runs);
                    while a < b {
                        let shared = Arc::new(Mutex::new(Shared::default()));
                        let mut sched = SeededScheduler::generate(def, seed, a, b, over.clone(), shared.clone());
                        sched.idx_file = idx_path.as_ref().and_then(|p| std::fs::OpenOptions::new().create(true).write(true).open(p).ok());
                        sched.oplog = oplog.and_then(|p| std::fs::File::create(p).ok());
                        let fail = drive(def, sched, &shared);
                        let s = shared.lock().unwrap();
                        match fail {
                            None => {
                                out.runs += b - a;
                                out.hash_xor ^= s.hash_xor;
                                out.steps += s.steps_total + s.steps;
                                out.preemptions += s.preemptions;
                                out.nontrivial.extend(s.fps.iter().copied());
                                if out.samples.is_empty() {
                                    out.samples.push(serde_json::json!({"scenario": def.name, "run_index": s.run_index, "config": s.cfg, "schedule_decisions": s.trace.decisions.len(), "first_decisions": s.trace.decisions.iter().take(40).collect::<Vec<_>>() }));
                                }
                                a = b;
                            }
                            Some(fs) => {
                                let run = s.run_index;
                                out.runs += run + 1 - a;
                                out.hash_xor ^= s.hash_xor;
                                out.nontrivial.extend(s.fps.iter().copied());
                                out.steps += s.steps_total + s.steps;
                                out.preemptions += s.preemptions;
                                if fs.iter().any(|f| f.prop == gate || f.prop == "HARNESS") {
                                    if out.found.len() < max_found {
                                        crate::core::note_found(run);
                                        out.found.push(L3Found { run_index: run, cfg: s.cfg.clone(), trace: s.trace.clone(), fails: fs });
                                    }
                                    if stop_on_first {
                                        stop.store(true, Ordering::Relaxed);
                                        break;
                                    }
                                } else {
                                    for f in &fs {
                                        *out.notes.entry(format!("{}:{}", f.prop, f.oracle)).or_insert(0) += 1;
                                    }
                                }
                                a = run + 1;
                            }
                        }
                    }
                }
                crate::core::heartbeat_done();
                let mut m = merged.lock().unwrap();
                for (k, v) in take_counts() {
                    *m.stats.faults.entry(k).or_insert(0) += v;
                }
                m.runs += out.runs;
                m.nontrivial.extend(out.nontrivial);
                m.found.extend(out.found);
                for (k, v) in out.notes {
                    *m.notes.entry(k).or_insert(0) += v;
                }
                m.samples.extend(out.samples);
                m.steps += out.steps;
                m.preemptions += out.preemptions;
                m.hash_xor ^= out.hash_xor;
            });
        }
    });
    let mut m = merged.into_inner().unwrap();
    m.found.sort_by_key(|f| f.run_index);
    m.samples.truncate(2);
    m.stats.ops = m.steps;
    *m.stats.faults.entry("preemption").or_insert(0) += m.preemptions;
    m
}

/// Re-executes one recorded schedule.
pub fn replay(def: &'static ThreadScenDef, cfg: &Cfg, trace: &Trace) -> (Vec<Fail>, u64) {
    let shared = Arc::new(Mutex::new(Shared::default()));
    let sched = SeededScheduler::replay(def, cfg.clone(), trace.clone(), shared.clone());
    let fail = drive(def, sched, &shared);
    let s = shared.lock().unwrap();
    let mut h = Hasher64::default();
    for d in &s.trace.decisions {
        h.add(*d as u64);
    }
    for d in &s.trace.draws {
        h.add(*d);
    }
    (fail.unwrap_or_default(), h.get())
}

/// Executes run `run` of seed `seed` once and returns its recorded trace and failures.
pub fn record_one(def: &'static ThreadScenDef, seed: u64, run: u64) -> (Trace, Vec<Fail>) {
    let shared = Arc::new(Mutex::new(Shared::default()));
    let sched = SeededScheduler::generate(def, seed, run, run + 1, Cfg::new(), shared.clone());
    let fail = drive(def, sched, &shared);
    let tr = shared.lock().unwrap().trace.clone();
    (tr, fail.unwrap_or_default())
}

/// Schedule minimisation: truncate the tail (fallback = fixed-seed random choice), zero the draws.
pub fn minimise(def: &'static ThreadScenDef, cfg: &Cfg, trace: &Trace, prop: &str, oracle: &str, budget: usize) -> Trace {
    let mut tr = trace.clone();
    let mut used = 0;
    let test = |t: &Trace| -> bool { replay(def, cfg, t).0.iter().any(|f| f.prop == prop && f.oracle == oracle) };
    let (mut lo, mut hi) = (0usize, tr.decisions.len());
    while lo < hi && used < budget {
        let mid = (lo + hi) / 2;
        let mut cand = tr.clone();
        cand.decisions.truncate(mid);
        used += 1;
        if test(&cand) {
            hi = mid;
        } else {
            lo = mid + 1;
        }
    }
    {
        let mut cand = tr.clone();
        cand.decisions.truncate(hi);
        if used < budget && test(&cand) {
            tr = cand;
        }
    }
    let mut chunk = (tr.draws.len() / 2).max(1);
    while used < budget && !tr.draws.is_empty() {
        let mut i = 0;
        while i < tr.draws.len() && used < budget {
            let end = (i + chunk).min(tr.draws.len());
            if tr.draws[i..end].iter().any(|v| *v != 0) {
                let mut cand = tr.clone();
                for v in &mut cand.draws[i..end] {
                    *v = 0;
                }
                used += 1;
                if test(&cand) {
                    tr = cand;
                }
            }
            i = end;
        }
        if chunk == 1 {
            break;
        }
        chunk /= 2;
    }
    tr
}
