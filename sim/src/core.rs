//! Shared machinery of the history simulator (L1) and the task simulator (L2):
//! operation / trace types, wake ledger, simulator-owned wakers, library-call wrapper
//! (allocation counting + panic capture), failure records.

use crate::alloc_count::{self, Counts};
use crate::rng::Hasher64;
use serde::{Deserialize, Serialize};
use std::cell::RefCell;
use std::collections::BTreeMap;
use std::panic::{catch_unwind, AssertUnwindSafe};
use std::task::Waker;

pub const MAX_IDS: usize = 64;

/// One operation of a history. `k` indexes the world's operation table.
#[derive(Clone, Copy, Debug, PartialEq, Eq, Serialize, Deserialize)]
pub struct Op {
    pub k: u16,
    pub a: u32,
    pub b: u32,
    pub c: u64,
}
impl Op {
    pub fn new(k: u16, a: u32, b: u32, c: u64) -> Op {
        Op { k, a, b, c }
    }
}

pub type Cfg = BTreeMap<String, i64>;

pub fn cfg_get(cfg: &Cfg, key: &str, default: i64) -> i64 {
    *cfg.get(key).unwrap_or(&default)
}

/// An oracle failure. `fatal` failures desynchronise the reference model, so the run stops.
#[derive(Clone, Debug, Serialize, Deserialize, PartialEq, Eq)]
pub struct Fail {
    pub prop: String,
    pub oracle: String,
    pub msg: String,
    pub at_op: usize,
    pub fatal: bool,
}

#[derive(Clone, Copy, Debug, PartialEq, Eq)]
pub enum St {
    Empty,
    /// created, never polled
    Fresh,
    /// polled, last poll returned Pending
    Pending,
    /// returned Ready (or was cancelled through `cancel()`), not dropped yet
    Done,
    Dropped,
}

#[derive(Clone, Copy, Debug)]
pub struct Slot {
    pub st: St,
    pub kind: u8,
    pub polls: u32,
    pub last_poll_seq: u64,
    pub last_variant: u8,
    /// seq of the first poll that returned Pending
    pub arrival: u64,
    /// start of the current wait (re-stamped by worlds whose property says so)
    pub wait_start: u64,
    /// latest wake seen through waker variant A / B
    pub wake_seq: [u64; 2],
    pub aux: u64,
}
impl Slot {
    pub const EMPTY: Slot = Slot {
        st: St::Empty,
        kind: 0,
        polls: 0,
        last_poll_seq: 0,
        last_variant: 0,
        arrival: 0,
        wait_start: 0,
        wake_seq: [0, 0],
        aux: 0,
    };
    /// woken, through the waker of its latest poll, since that poll
    pub fn uw(&self) -> bool {
        self.st == St::Pending && self.wake_seq[self.last_variant as usize] > self.last_poll_seq
    }
    pub fn pending(&self) -> bool {
        self.st == St::Pending
    }
    pub fn alive(&self) -> bool {
        matches!(self.st, St::Fresh | St::Pending | St::Done)
    }
}

// ---------------------------------------------------------------- wakers

const WAKE_LOG_CAP: usize = 512;
struct WakeLog {
    n: usize,
    ev: [(u16, u8); WAKE_LOG_CAP],
    overflow: bool,
}
thread_local! {
    static WAKE_LOG: RefCell<WakeLog> = const { RefCell::new(WakeLog { n: 0, ev: [(0, 0); WAKE_LOG_CAP], overflow: false }) };
}

// Wakers are plain (id, variant) tokens behind a static vtable: no reference count that a
// library bug could corrupt, no allocation. Every clone and drop is counted, so a leaked or
// doubly dropped `Waker` is visible as a non-zero balance (C01 oracle `waker-balance`).
thread_local! {
    static WAKER_BALANCE: RefCell<[[i32; 2]; MAX_IDS]> = const { RefCell::new([[0; 2]; MAX_IDS]) };
}

fn tok(id: usize, variant: u8) -> *const () {
    (((id << 1) | variant as usize) + 1) as *const ()
}
fn untok(p: *const ()) -> (usize, u8) {
    let v = p as usize - 1;
    ((v >> 1) % MAX_IDS, (v & 1) as u8)
}

// Re-entrant user code: wakers are user objects, and the library runs their clone / wake /
// drop in the middle of its own operations. A world may arm a callback that is invoked from
// the n-th such waker callback of the current library call (fault kind "re-entrant call").
thread_local! {
    static REENTRY: std::cell::Cell<Option<(unsafe fn(*mut ()), *mut ())>> = const { std::cell::Cell::new(None) };
    static REENTRY_COUNTDOWN: std::cell::Cell<u32> = const { std::cell::Cell::new(0) };
}

pub fn arm_reentry(f: unsafe fn(*mut ()), ctx: *mut (), nth: u32) {
    REENTRY.with(|r| r.set(Some((f, ctx))));
    REENTRY_COUNTDOWN.with(|c| c.set(nth));
}

pub fn disarm_reentry() {
    REENTRY.with(|r| r.set(None));
    REENTRY_COUNTDOWN.with(|c| c.set(0));
}

#[inline]
fn user_callback() {
    let c = REENTRY_COUNTDOWN.with(|c| c.get());
    if c == 0 || !crate::val::in_lib() {
        return;
    }
    REENTRY_COUNTDOWN.with(|x| x.set(c - 1));
    if c == 1 {
        if let Some((f, ctx)) = REENTRY.with(|r| r.take()) {
            // Safety: the world that armed the hook keeps `ctx` alive until it disarms it
            unsafe { f(ctx) }
        }
    }
}

fn on_clone(id: usize, v: u8) {
    user_callback();
    WAKER_BALANCE.with(|b| b.borrow_mut()[id][v as usize] += 1);
}
fn on_wake_by_ref(id: usize, v: u8) {
    user_callback();
    WAKE_LOG.with(|l| {
        let mut l = l.borrow_mut();
        if l.n < WAKE_LOG_CAP {
            let n = l.n;
            l.ev[n] = (id as u16, v);
            l.n += 1;
        } else {
            l.overflow = true;
        }
    })
}
fn on_drop(id: usize, v: u8) {
    user_callback();
    WAKER_BALANCE.with(|b| b.borrow_mut()[id][v as usize] -= 1);
}

// encoding 0: the variant (A / B) is part of the data pointer, one vtable
unsafe fn vt_clone(p: *const ()) -> std::task::RawWaker {
    let (id, v) = untok(p);
    on_clone(id, v);
    std::task::RawWaker::new(p, &VTABLE)
}
unsafe fn vt_wake(p: *const ()) {
    vt_wake_by_ref(p);
    vt_drop(p);
}
unsafe fn vt_wake_by_ref(p: *const ()) {
    let (id, v) = untok(p);
    on_wake_by_ref(id, v);
}
unsafe fn vt_drop(p: *const ()) {
    let (id, v) = untok(p);
    on_drop(id, v);
}
static VTABLE: std::task::RawWakerVTable = std::task::RawWakerVTable::new(vt_clone, vt_wake, vt_wake_by_ref, vt_drop);

// encoding 1: waker B of a future has the SAME data pointer as its waker A and differs only in
// the vtable (executors that pass themselves as data and encode the task in the vtable; all
// null-data wakers). `will_wake` must still tell them apart.
unsafe fn vtb_clone(p: *const ()) -> std::task::RawWaker {
    on_clone(untok(p).0, 1);
    std::task::RawWaker::new(p, &VTABLE_B)
}
unsafe fn vtb_wake(p: *const ()) {
    vtb_wake_by_ref(p);
    vtb_drop(p);
}
unsafe fn vtb_wake_by_ref(p: *const ()) {
    on_wake_by_ref(untok(p).0, 1);
}
unsafe fn vtb_drop(p: *const ()) {
    on_drop(untok(p).0, 1);
}
static VTABLE_B: std::task::RawWakerVTable = std::task::RawWakerVTable::new(vtb_clone, vtb_wake, vtb_wake_by_ref, vtb_drop);

fn make_waker(id: usize, variant: u8) -> Waker {
    WAKER_BALANCE.with(|b| b.borrow_mut()[id][variant as usize] += 1);
    // Safety: the vtable functions only interpret the data pointer as a token
    unsafe { Waker::from_raw(std::task::RawWaker::new(tok(id, variant), &VTABLE)) }
}

/// waker B in encoding 1: data pointer of waker A, its own vtable
fn make_waker_b_same_data(id: usize) -> Waker {
    WAKER_BALANCE.with(|b| b.borrow_mut()[id][1] += 1);
    // Safety: as above
    unsafe { Waker::from_raw(std::task::RawWaker::new(tok(id, 0), &VTABLE_B)) }
}

/// back to "only the harness' persistent handle exists" (a failed run leaks its world)
pub fn reset_waker_balance() {
    WAKER_BALANCE.with(|b| *b.borrow_mut() = [[1; 2]; MAX_IDS]);
}

/// (min, max) over all waker balances, not counting the harness' own persistent handle
pub fn waker_balance_range() -> (i32, i32) {
    WAKER_BALANCE.with(|b| {
        let b = b.borrow();
        let mut lo = i32::MAX;
        let mut hi = i32::MIN;
        for row in b.iter() {
            for v in row {
                lo = lo.min(*v - 1);
                hi = hi.max(*v - 1);
            }
        }
        (lo, hi)
    })
}

fn drain_wake_log(out: &mut Vec<(u16, u8)>) -> bool {
    WAKE_LOG.with(|l| {
        let mut l = l.borrow_mut();
        for i in 0..l.n {
            out.push(l.ev[i]);
        }
        l.n = 0;
        let o = l.overflow;
        l.overflow = false;
        o
    })
}

// ---------------------------------------------------------------- panic capture

thread_local! {
    static LAST_PANIC: RefCell<Option<String>> = const { RefCell::new(None) };
    static FIRST_PANIC: RefCell<Option<String>> = const { RefCell::new(None) };
    pub static QUIET_PANICS: std::cell::Cell<bool> = const { std::cell::Cell::new(false) };
}

pub fn install_panic_hook() {
    let default = std::panic::take_hook();
    std::panic::set_hook(Box::new(move |info| {
        let quiet = QUIET_PANICS.with(|q| q.get());
        if quiet {
            let msg = if let Some(s) = info.payload().downcast_ref::<&str>() {
                s.to_string()
            } else if let Some(s) = info.payload().downcast_ref::<String>() {
                s.clone()
            } else {
                "<non-string panic>".to_string()
            };
            let loc = info.location().map(|l| format!(" at {}:{}", l.file(), l.line())).unwrap_or_default();
            FIRST_PANIC.with(|p| {
                let mut p = p.borrow_mut();
                if p.is_none() {
                    *p = Some(msg.clone());
                }
            });
            LAST_PANIC.with(|p| *p.borrow_mut() = Some(format!("{}{}", msg, loc)));
        } else {
            default(info);
        }
    }));
}

/// the first panic message since the last call (L3: shuttle re-panics after the original)
pub fn take_first_panic() -> Option<String> {
    FIRST_PANIC.with(|p| p.borrow_mut().take())
}

pub fn take_last_panic() -> Option<String> {
    LAST_PANIC.with(|p| p.borrow_mut().take())
}

// ---------------------------------------------------------------- statistics

#[derive(Clone, Debug, Default, Serialize)]
pub struct Stats {
    pub faults: BTreeMap<&'static str, u64>,
    pub probes: BTreeMap<&'static str, u64>,
    pub ops: u64,
    pub polls_pending: u64,
    pub polls_ready: u64,
    pub wakes: u64,
}
impl Stats {
    pub fn merge(&mut self, o: &Stats) {
        for (k, v) in &o.faults {
            *self.faults.entry(k).or_insert(0) += v;
        }
        for (k, v) in &o.probes {
            *self.probes.entry(k).or_insert(0) += v;
        }
        self.ops += o.ops;
        self.polls_pending += o.polls_pending;
        self.polls_ready += o.polls_ready;
        self.wakes += o.wakes;
    }
}

// ---------------------------------------------------------------- environment of one run

pub struct Env {
    pub seq: u64,
    pub slots: [Slot; MAX_IDS],
    wakers: Vec<[Waker; 2]>,
    wakers_b_same_data: Vec<Waker>,
    /// 0: wakers A and B of a future differ in their data pointer; 1: only in their vtable
    pub waker_enc: u8,
    pub fails: Vec<Fail>,
    pub log: Hasher64,
    pub stats: Stats,
    pub op_index: usize,
    /// wakes observed during the current op (id, variant)
    pub wakes: Vec<(u16, u8)>,
    /// allocator events inside library calls of the current op
    pub alloc: Counts,
    /// fault kinds fired in this run (for the non-triviality rule)
    pub faults_this_run: u32,
    pub pendings_this_run: u32,
    /// fingerprint of op kinds of this run
    pub kind_fp: Hasher64,
    /// distinct (state) and (state, op kind) hashes are pushed here by worlds
    pub state_hashes: Vec<u64>,
    pub trans_hashes: Vec<u64>,
    pub collect_states: bool,
    /// a panic inside a library call is expected (poll-after-completion probe)
    pub expect_panic: bool,
    pub sim_time_ms: u64,
    /// ids of the futures that are alive (created, not dropped), in creation order
    pub live: Vec<usize>,
    /// operations executed by the implicit teardown (`World::finish`)
    pub finish_ops: Vec<Op>,
    /// write-ahead operation log for crash isolation (flushed before the op executes)
    pub oplog: Option<std::fs::File>,
}

impl Env {
    pub fn new() -> Env {
        let mut wakers = Vec::with_capacity(MAX_IDS);
        for id in 0..MAX_IDS {
            wakers.push([make_waker(id, 0), make_waker(id, 1)]);
        }
        let wakers_b_same_data: Vec<Waker> = (0..MAX_IDS).map(make_waker_b_same_data).collect();
        let mut dummy = Vec::new();
        drain_wake_log(&mut dummy);
        Env {
            seq: 0,
            slots: [Slot::EMPTY; MAX_IDS],
            wakers,
            wakers_b_same_data,
            waker_enc: 0,
            fails: Vec::new(),
            log: Hasher64::default(),
            stats: Stats::default(),
            op_index: 0,
            wakes: Vec::with_capacity(64),
            alloc: Counts::default(),
            faults_this_run: 0,
            pendings_this_run: 0,
            kind_fp: Hasher64::default(),
            state_hashes: Vec::new(),
            trans_hashes: Vec::new(),
            collect_states: false,
            expect_panic: false,
            sim_time_ms: 0,
            live: Vec::with_capacity(MAX_IDS),
            finish_ops: Vec::new(),
            oplog: None,
        }
    }

    /// Resets everything that belongs to one run (wakers are reused).
    pub fn reset(&mut self) {
        let mut dummy = Vec::new();
        drain_wake_log(&mut dummy);
        reset_waker_balance();
        self.seq = 0;
        self.slots = [Slot::EMPTY; MAX_IDS];
        self.fails.clear();
        self.log = Hasher64::default();
        self.stats = Stats::default();
        self.op_index = 0;
        self.wakes.clear();
        self.alloc = Counts::default();
        self.faults_this_run = 0;
        self.pendings_this_run = 0;
        self.kind_fp = Hasher64::default();
        self.state_hashes.clear();
        self.trans_hashes.clear();
        self.expect_panic = false;
        self.sim_time_ms = 0;
        self.live.clear();
        self.finish_ops.clear();
    }

    /// Registers a freshly created future.
    pub fn slot_create(&mut self, id: usize, kind: u8, aux: u64) {
        self.slots[id] = Slot { st: St::Fresh, kind, aux, ..Slot::EMPTY };
        self.live.push(id);
    }

    /// pending futures of `kind`, ordered by the start of their current wait
    pub fn pending_sorted(&self, kind: u8) -> Vec<usize> {
        let mut p: Vec<usize> = self.live.iter().copied().filter(|id| self.slots[*id].st == St::Pending && self.slots[*id].kind == kind).collect();
        p.sort_by_key(|id| self.slots[*id].wait_start);
        p
    }

    pub fn any_pending(&self, kind: u8, except: usize) -> bool {
        self.live.iter().any(|id| *id != except && self.slots[*id].st == St::Pending && self.slots[*id].kind == kind)
    }

    /// Records an operation in the write-ahead log before it is executed.
    pub fn log_op(&mut self, op: Op) {
        if let Some(f) = &mut self.oplog {
            use std::io::Write;
            let _ = writeln!(f, "{} {} {} {}", op.k, op.a, op.b, op.c);
        }
    }

    pub fn next_seq(&mut self) -> u64 {
        self.seq += 1;
        self.seq
    }

    pub fn waker(&self, id: usize, variant: u8) -> &Waker {
        if variant == 1 && self.waker_enc == 1 {
            &self.wakers_b_same_data[id]
        } else {
            &self.wakers[id][variant as usize]
        }
    }

    pub fn fail(&mut self, prop: &str, oracle: &str, msg: String, fatal: bool) {
        self.fails.push(Fail { prop: prop.to_string(), oracle: oracle.to_string(), msg, at_op: self.op_index, fatal });
    }

    pub fn has_fatal(&self) -> bool {
        self.fails.iter().any(|f| f.fatal)
    }

    pub fn fault(&mut self, kind: &'static str) {
        *self.stats.faults.entry(kind).or_insert(0) += 1;
        self.faults_this_run += 1;
    }

    pub fn probe(&mut self, name: &'static str) {
        *self.stats.probes.entry(name).or_insert(0) += 1;
    }

    /// Runs one library call: allocator armed, panics captured.
    /// Returns None if the call panicked (recorded as a fatal C01 failure unless expected).
    pub fn call<R>(&mut self, what: &str, f: impl FnOnce() -> R) -> Option<R> {
        QUIET_PANICS.with(|q| q.set(true));
        crate::val::set_in_lib(true);
        let (res, counts) = alloc_count::armed(|| catch_unwind(AssertUnwindSafe(f)));
        crate::val::set_in_lib(false);
        QUIET_PANICS.with(|q| q.set(false));
        self.alloc.allocs += counts.allocs;
        self.alloc.deallocs += counts.deallocs;
        self.alloc.reallocs += counts.reallocs;
        match res {
            Ok(r) => Some(r),
            Err(_) => {
                let msg = take_last_panic().unwrap_or_default();
                if self.expect_panic {
                    // the unwinding machinery allocates the panic payload; not the library's doing
                    self.alloc = Counts::default();
                    self.log.add_str("expected-panic");
                } else {
                    self.fail("C01", "panic", format!("library call `{}` panicked on a contract-respecting history: {}", what, msg), true);
                }
                None
            }
        }
    }

    /// Moves the wakes that happened since the last call into the ledger.
    pub fn collect_wakes(&mut self) {
        let start = self.wakes.len();
        let overflow = drain_wake_log(&mut self.wakes);
        if overflow {
            self.fail("C01", "wake-storm", "more than 512 wake-ups in one operation".into(), true);
        }
        for i in start..self.wakes.len() {
            let (id, v) = self.wakes[i];
            let s = self.next_seq();
            self.slots[id as usize].wake_seq[v as usize] = s;
            self.stats.wakes += 1;
            self.log.add(0x77);
            self.log.add(id as u64 * 2 + v as u64);
        }
    }

    /// Bookkeeping for the start of a poll of future `id` through waker variant `variant`.
    /// Returns whether the future held an unconsumed wake-up.
    pub fn begin_poll(&mut self, id: usize, variant: u8) -> bool {
        let had_uw = self.slots[id].uw();
        let prev_variant = self.slots[id].last_variant;
        let was_pending = self.slots[id].st == St::Pending;
        let s = self.next_seq();
        let sl = &mut self.slots[id];
        sl.polls += 1;
        sl.last_poll_seq = s;
        sl.last_variant = variant;
        if was_pending {
            if !had_uw {
                self.fault("spurious_poll");
            }
            if prev_variant != variant {
                self.fault(if had_uw { "waker_swap_while_notified" } else { "waker_swap" });
            }
        }
        had_uw
    }

    /// Bookkeeping for the result of a poll.
    pub fn end_poll(&mut self, id: usize, ready: bool) {
        let seq = self.slots[id].last_poll_seq;
        let sl = &mut self.slots[id];
        if ready {
            sl.st = St::Done;
            self.stats.polls_ready += 1;
        } else {
            if sl.st == St::Fresh {
                sl.arrival = seq;
                sl.wait_start = seq;
            }
            sl.st = St::Pending;
            self.stats.polls_pending += 1;
            self.pendings_this_run += 1;
        }
        self.log.add(0x50 + ready as u64);
        self.log.add(id as u64);
    }

    /// classification of a drop, from the ledger
    pub fn note_drop(&mut self, id: usize, queue_pos: Option<(usize, usize)>) {
        let sl = self.slots[id];
        match sl.st {
            St::Fresh => self.fault("cancel_fresh"),
            St::Pending => {
                if sl.uw() {
                    self.fault("cancel_notified");
                } else {
                    match queue_pos {
                        Some((p, n)) if n > 1 && p == 0 => self.fault("cancel_waiting_head"),
                        Some((p, n)) if n > 1 && p + 1 == n => self.fault("cancel_waiting_tail"),
                        Some((_, n)) if n > 2 => self.fault("cancel_waiting_middle"),
                        _ => self.fault("cancel_waiting_only"),
                    }
                }
            }
            _ => {}
        }
        self.slots[id].st = St::Dropped;
        self.live.retain(|x| *x != id);
    }

    pub fn push_state(&mut self, state_hash: u64, op_kind: u16) {
        if self.collect_states {
            self.state_hashes.push(state_hash);
            let mut h = Hasher64(state_hash);
            h.add(op_kind as u64);
            self.trans_hashes.push(h.get());
        }
    }
}

// ---------------------------------------------------------------- pinned cells for futures

use std::mem::MaybeUninit;
use std::pin::Pin;

/// Storage for the futures of one kind. A cell is used for at most one future per run and is
/// never handed back to the allocator during the run (quarantine ⇒ no address reuse).
pub struct Arena<F> {
    cells: Box<[MaybeUninit<F>]>,
    live: [bool; MAX_IDS],
}

impl<F> Arena<F> {
    pub fn new() -> Arena<F> {
        let mut v = Vec::with_capacity(MAX_IDS);
        for _ in 0..MAX_IDS {
            v.push(MaybeUninit::uninit());
        }
        Arena { cells: v.into_boxed_slice(), live: [false; MAX_IDS] }
    }
    pub fn is_live(&self, id: usize) -> bool {
        self.live[id]
    }
    pub fn put(&mut self, id: usize, f: F) {
        assert!(!self.live[id]);
        self.cells[id].write(f);
        self.live[id] = true;
    }
    pub fn pin(&mut self, id: usize) -> Pin<&mut F> {
        assert!(self.live[id]);
        unsafe { Pin::new_unchecked(self.cells[id].assume_init_mut()) }
    }
    pub fn get(&self, id: usize) -> &F {
        assert!(self.live[id]);
        unsafe { self.cells[id].assume_init_ref() }
    }
    /// Raw pointer for dropping inside `Env::call`.
    pub fn take_for_drop(&mut self, id: usize) -> *mut F {
        assert!(self.live[id]);
        self.live[id] = false;
        self.cells[id].as_mut_ptr()
    }
    /// id of the live cell whose byte range contains `addr`
    pub fn find(&self, addr: usize) -> Option<usize> {
        let base = self.cells.as_ptr() as usize;
        let sz = std::mem::size_of::<F>().max(1);
        if addr < base {
            return None;
        }
        let idx = (addr - base) / sz;
        if idx < MAX_IDS && self.live[idx] {
            Some(idx)
        } else {
            None
        }
    }
    pub fn live_ids(&self) -> impl Iterator<Item = usize> + '_ {
        (0..MAX_IDS).filter(move |i| self.live[*i])
    }
}

impl<F> Drop for Arena<F> {
    fn drop(&mut self) {
        for id in 0..MAX_IDS {
            if self.live[id] {
                unsafe { self.cells[id].assume_init_drop() };
            }
        }
    }
}

/// Heap cell that owns a primitive while `'static` shared references to it are handed to
/// futures. The box is turned into a raw pointer once and never moved again, so the
/// references stay valid under the aliasing model; the owner must outlive every borrower
/// (worlds drop futures and guards first).
pub struct Owned<T> {
    ptr: *mut T,
}
impl<T> Owned<T> {
    pub fn new(v: T) -> (Owned<T>, &'static T) {
        let ptr = Box::into_raw(Box::new(v));
        // Safety: the allocation lives until `Owned` is dropped
        (Owned { ptr }, unsafe { &*ptr })
    }
}
impl<T> Drop for Owned<T> {
    fn drop(&mut self) {
        // Safety: created by Box::into_raw, dropped once
        unsafe { drop(Box::from_raw(self.ptr)) }
    }
}

// ---------------------------------------------------------------- watchdog (hang = crash)

use std::sync::atomic::{AtomicU64, AtomicUsize, Ordering};
const HB_SLOTS: usize = 128;
#[allow(clippy::declare_interior_mutable_const)]
const HB0: AtomicU64 = AtomicU64::new(0);
static HEARTBEATS: [AtomicU64; HB_SLOTS] = [HB0; HB_SLOTS];
static HB_NEXT: AtomicUsize = AtomicUsize::new(0);
thread_local! {
    static HB_MINE: std::cell::Cell<usize> = const { std::cell::Cell::new(usize::MAX) };
}

/// Called by every simulation thread at least once per run (L3: per scheduling step).
#[inline]
pub fn heartbeat() {
    HB_MINE.with(|m| {
        let mut i = m.get();
        if i == usize::MAX {
            i = HB_NEXT.fetch_add(1, Ordering::SeqCst) % HB_SLOTS;
            m.set(i);
        }
        HEARTBEATS[i].fetch_add(1, Ordering::Relaxed);
    });
}

/// The thread is done (or idle): stop watching it.
pub fn heartbeat_done() {
    HB_MINE.with(|m| {
        let i = m.get();
        if i != usize::MAX {
            HEARTBEATS[i].store(u64::MAX, Ordering::SeqCst);
        }
    });
}

/// A library call that never returns (e.g. a corrupted list that became a cycle) would hang
/// the worker forever. The watchdog turns that into an abort, which the parent process then
/// isolates and reports like any other crash.
pub fn start_watchdog(limit_s: u64) {
    if cfg!(miri) {
        // Miri is ~1000x slower and objects to threads that outlive main
        return;
    }
    std::thread::spawn(move || {
        let mut last = [0u64; HB_SLOTS];
        let mut stale = [0u64; HB_SLOTS];
        loop {
            std::thread::sleep(std::time::Duration::from_secs(1));
            let n = HB_NEXT.load(Ordering::SeqCst).min(HB_SLOTS);
            for i in 0..n {
                let v = HEARTBEATS[i].load(Ordering::SeqCst);
                if v == u64::MAX || v == 0 {
                    stale[i] = 0;
                    continue;
                }
                if v == last[i] {
                    stale[i] += 1;
                    if stale[i] >= limit_s {
                        eprintln!("watchdog: a simulation thread made no progress for {} s (a library call does not return); aborting", limit_s);
                        std::process::abort();
                    }
                } else {
                    stale[i] = 0;
                    last[i] = v;
                }
            }
        }
    });
}

// ---------------------------------------------------------------- runs to leave out

static SKIP_RUNS: std::sync::OnceLock<Vec<u64>> = std::sync::OnceLock::new();

/// Run indexes this worker process leaves out (runs that crash the process on the tree under
/// test: a C01 matter; other gates go on without them).
pub fn set_skip_runs(v: Vec<u64>) {
    let _ = SKIP_RUNS.set(v);
}

pub fn skip_run(run: u64) -> bool {
    SKIP_RUNS.get().map(|v| v.contains(&run)).unwrap_or(false)
}

// ---------------------------------------------------------------- findings that survive a crash

static FOUND_FILE: std::sync::OnceLock<std::sync::Mutex<std::fs::File>> = std::sync::OnceLock::new();

/// The worker appends the index of every violating run to this file the moment it is found,
/// so that a later crash of the process (another run corrupting memory) does not take the
/// finding with it.
pub fn set_found_file(path: &std::path::Path) {
    if let Ok(f) = std::fs::OpenOptions::new().create(true).append(true).open(path) {
        let _ = FOUND_FILE.set(std::sync::Mutex::new(f));
    }
}

pub fn note_found(run: u64) {
    if let Some(m) = FOUND_FILE.get() {
        use std::io::Write;
        if let Ok(mut f) = m.lock() {
            let _ = writeln!(f, "{}", run);
            let _ = f.flush();
        }
    }
}
