//! L4 — Miri cross-check. (a) the L1 history simulator itself is executed by Miri (the
//! `l1` command, single-threaded, a few histories per world); (b) the small real-thread
//! program below runs on the parking_lot flavours under `-Zmiri-many-seeds`, Miri's scheduler
//! being deterministic per seed. Miri decides: use-after-free, out-of-bounds, uninitialised
//! reads, invalid values, data races on the histories the simulator generates.

use futures_intrusive::channel::shared::channel;
use futures_intrusive::sync::{Mutex, Semaphore, SharedSemaphore};
use futures_intrusive::timer::{MockClock, Timer, TimerService};
use std::future::Future;
use std::pin::Pin;
use std::sync::atomic::{AtomicU64, Ordering};
use std::sync::Arc;
use std::task::{Context, Poll, Wake, Waker};

struct ThreadWaker(std::thread::Thread);
impl Wake for ThreadWaker {
    fn wake(self: Arc<Self>) {
        self.0.unpark();
    }
}

fn block_on<F: Future>(f: F) -> F::Output {
    let mut f = Box::pin(f);
    let waker = Waker::from(Arc::new(ThreadWaker(std::thread::current())));
    let mut cx = Context::from_waker(&waker);
    loop {
        match f.as_mut().poll(&mut cx) {
            Poll::Ready(v) => return v,
            Poll::Pending => std::thread::park(),
        }
    }
}

/// gives up after `n` Pending polls (drops the inner future while it is registered)
struct GiveUp<F> {
    f: F,
    n: u32,
}
impl<F: Future> Future for GiveUp<F> {
    type Output = Option<F::Output>;
    fn poll(self: Pin<&mut Self>, cx: &mut Context<'_>) -> Poll<Self::Output> {
        let this = unsafe { self.get_unchecked_mut() };
        let f = unsafe { Pin::new_unchecked(&mut this.f) };
        match f.poll(cx) {
            Poll::Ready(v) => Poll::Ready(Some(v)),
            Poll::Pending if this.n == 0 => Poll::Ready(None),
            Poll::Pending => {
                this.n -= 1;
                cx.waker().wake_by_ref();
                Poll::Pending
            }
        }
    }
}

static CLOCK: MockClock = MockClock::new();

/// Real threads on the thread-safe flavours: mutex + semaphore + shared channel + timer,
/// including cancellation of registered futures from other threads' point of view.
pub fn thread_scenario() -> Result<(), String> {
    let mutex = Arc::new(Mutex::new(0u64, true));
    let sem = Arc::new(Semaphore::new(false, 1));
    let (tx, rx) = channel::<Box<u64>>(1);
    let timer = Arc::new(TimerService::new(&CLOCK));
    let sent = Arc::new(AtomicU64::new(0));
    // one shared-semaphore handle used by reference from two threads (no clone of the handle:
    // its internal reference count stays at one while both threads call into it)
    let shared_sem = Arc::new(SharedSemaphore::new(false, 2));
    let mut hs = Vec::new();
    for _ in 0..2 {
        let ss = shared_sem.clone();
        hs.push(std::thread::spawn(move || {
            for _ in 0..3 {
                if let Some(mut r) = ss.try_acquire(1) {
                    let n = r.disarm();
                    std::thread::yield_now();
                    ss.release(n);
                }
                let _ = ss.permits();
            }
        }));
    }
    for t in 0..2u64 {
        let (mutex, sem, tx, sent) = (mutex.clone(), sem.clone(), tx.clone(), sent.clone());
        hs.push(std::thread::spawn(move || {
            for i in 0..2u64 {
                if let Some(mut g) = block_on(GiveUp { f: mutex.lock(), n: 2 }) {
                    *g += 1;
                }
                let r = block_on(sem.acquire(1));
                std::thread::yield_now();
                drop(r);
                if block_on(tx.send(Box::new(t * 10 + i))).is_ok() {
                    sent.fetch_add(1, Ordering::SeqCst);
                }
            }
        }));
    }
    drop(tx);
    let consumer = {
        let rx = rx.clone();
        std::thread::spawn(move || {
            let mut n = 0u64;
            loop {
                match block_on(GiveUp { f: rx.receive(), n: 1 }) {
                    Some(Some(_)) => n += 1,
                    Some(None) => break,
                    None => continue,
                }
            }
            n
        })
    };
    drop(rx);
    let sleeper = {
        let timer = timer.clone();
        std::thread::spawn(move || {
            block_on(timer.deadline(5));
            let cancelled = block_on(GiveUp { f: timer.deadline(1_000_000), n: 1 });
            cancelled.is_none()
        })
    };
    for k in 1..=8u64 {
        CLOCK.set_time(k);
        timer.check_expirations();
        std::thread::yield_now();
    }
    for h in hs {
        h.join().map_err(|_| "worker panicked".to_string())?;
    }
    let got = consumer.join().map_err(|_| "consumer panicked".to_string())?;
    // keep expiring until the sleeper is through
    while !sleeper.is_finished() {
        CLOCK.set_time(100);
        timer.check_expirations();
        std::thread::yield_now();
    }
    sleeper.join().map_err(|_| "sleeper panicked".to_string())?;
    if got != sent.load(Ordering::SeqCst) {
        return Err(format!("{} values accepted but {} received", sent.load(Ordering::SeqCst), got));
    }
    if mutex.is_locked() {
        return Err("mutex still locked".into());
    }
    if shared_sem.permits() != 2 {
        return Err(format!("shared semaphore: {} permits, 2 expected", shared_sem.permits()));
    }
    Ok(())
}
