//! L4 — Miri cross-check. (a) the L1 history simulator itself is executed by Miri (the
//! `l1` command, single-threaded, a few histories per world); (b) the small real-thread
//! program below runs on the parking_lot flavours under `-Zmiri-many-seeds`, Miri's scheduler
//! being deterministic per seed. Miri decides: use-after-free, out-of-bounds, uninitialised
//! reads, invalid values, data races on the histories the simulator generates.

use futures_intrusive::channel::shared::channel;
use futures_intrusive::sync::{Mutex, Semaphore, SharedSemaphore};
use futures_intrusive::timer::{MockClock, Timer, TimerService};
use std::future::Future;
use std::pin::Pin;
use std::sync::atomic::{AtomicU64, Ordering};
use std::sync::Arc;
use std::task::{Context, Poll, Wake, Waker};

struct ThreadWaker(std::thread::Thread);
impl Wake for ThreadWaker {
    fn wake(self: Arc<Self>) {
        self.0.unpark();
    }
}

fn block_on<F: Future>(f: F) -> F::Output {
    let mut f = Box::pin(f);
    let waker = Waker::from(Arc::new(ThreadWaker(std::thread::current())));
    let mut cx = Context::from_waker(&waker);
    loop {
        match f.as_mut().poll(&mut cx) {
            Poll::Ready(v) => return v,
            Poll::Pending => std::thread::park(),
        }
    }
}

/// gives up after `n` Pending polls (drops the inner future while it is registered)
struct GiveUp<F> {
    f: F,
    n: u32,
}
impl<F: Future> Future for GiveUp<F> {
    type Output = Option<F::Output>;
    fn poll(self: Pin<&mut Self>, cx: &mut Context<'_>) -> Poll<Self::Output> {
        let this = unsafe { self.get_unchecked_mut() };
        let f = unsafe { Pin::new_unchecked(&mut this.f) };
        match f.poll(cx) {
            Poll::Ready(v) => Poll::Ready(Some(v)),
            Poll::Pending if this.n == 0 => Poll::Ready(None),
            Poll::Pending => {
                this.n -= 1;
                cx.waker().wake_by_ref();
                Poll::Pending
            }
        }
    }
}

static CLOCK: MockClock = MockClock::new();

/// Real threads on the thread-safe flavours: mutex + semaphore + shared channel + timer,
/// including cancellation of registered futures from other threads' point of view.
pub fn thread_scenario() -> Result<(), String> {
    let mutex = Arc::new(Mutex::new(0u64, true));
    let sem = Arc::new(Semaphore::new(false, 1));
    let (tx, rx) = channel::<Box<u64>>(1);
    let timer = Arc::new(TimerService::new(&CLOCK));
    let sent = Arc::new(AtomicU64::new(0));
    // one shared-semaphore handle used by reference from two threads (no clone of the handle:
    // its internal reference count stays at one while both threads call into it)
    let shared_sem = Arc::new(SharedSemaphore::new(false, 2));
    let mut hs = Vec::new();
    for _ in 0..2 {
        let ss = shared_sem.clone();
        hs.push(std::thread::spawn(move || {
            for _ in 0..3 {
                if let Some(mut r) = ss.try_acquire(1) {
                    let n = r.disarm();
                    std::thread::yield_now();
                    ss.release(n);
                }
                let _ = ss.permits();
            }
        }));
    }
    for t in 0..2u64 {
        let (mutex, sem, tx, sent) = (mutex.clone(), sem.clone(), tx.clone(), sent.clone());
        hs.push(std::thread::spawn(move || {
            for i in 0..2u64 {
                if let Some(mut g) = block_on(GiveUp { f: mutex.lock(), n: 2 }) {
                    *g += 1;
                }
                let r = block_on(sem.acquire(1));
                std::thread::yield_now();
                let _ = sem.permits();
                drop(r);
                let _ = sem.permits();
                if block_on(tx.send(Box::new(t * 10 + i))).is_ok() {
                    sent.fetch_add(1, Ordering::SeqCst);
                }
            }
        }));
    }
    drop(tx);
    let consumer = {
        let rx = rx.clone();
        std::thread::spawn(move || {
            let mut n = 0u64;
            loop {
                match block_on(GiveUp { f: rx.receive(), n: 1 }) {
                    Some(Some(_)) => n += 1,
                    Some(None) => break,
                    None => continue,
                }
            }
            n
        })
    };
    drop(rx);
    let sleeper = {
        let timer = timer.clone();
        std::thread::spawn(move || {
            block_on(timer.deadline(5));
            let cancelled = block_on(GiveUp { f: timer.deadline(1_000_000), n: 1 });
            cancelled.is_none()
        })
    };
    for k in 1..=8u64 {
        CLOCK.set_time(k);
        timer.check_expirations();
        std::thread::yield_now();
    }
    for h in hs {
        h.join().map_err(|_| "worker panicked".to_string())?;
    }
    let got = consumer.join().map_err(|_| "consumer panicked".to_string())?;
    // keep expiring until the sleeper is through
    while !sleeper.is_finished() {
        CLOCK.set_time(100);
        timer.check_expirations();
        std::thread::yield_now();
    }
    sleeper.join().map_err(|_| "sleeper panicked".to_string())?;
    if got != sent.load(Ordering::SeqCst) {
        return Err(format!("{} values accepted but {} received", sent.load(Ordering::SeqCst), got));
    }
    if mutex.is_locked() {
        return Err("mutex still locked".into());
    }
    if shared_sem.permits() != 2 {
        return Err(format!("shared semaphore: {} permits, 2 expected", shared_sem.permits()));
    }
    Ok(())
}

/// Second real-thread program: every remaining thread-safe flavour is called *by reference*
/// from two threads at once — one handle (or one borrowed primitive) shared through an `Arc`,
/// so its internal handle count stays at one while both threads are inside it. The point is
/// Miri's data-race detector: a lock-free shortcut in an accessor (`is_set()`, `is_locked()`,
/// `try_receive()`, a "sole owner" fast path) has no lock, atomic or wake-up in it and therefore
/// no scheduling point the L3 scheduler could use (seeded change TH05 was of that kind).
pub fn thread_scenario_b() -> Result<(), String> {
    use futures_intrusive::channel::shared::{oneshot_broadcast_channel, oneshot_channel, state_broadcast_channel};
    use futures_intrusive::channel::StateId;
    use futures_intrusive::sync::ManualResetEvent;
    let ev = Arc::new(ManualResetEvent::new(false));
    let umutex = Arc::new(Mutex::new(0u64, false));
    let (btx, brx) = oneshot_broadcast_channel::<u64>();
    let (otx, orx) = oneshot_channel::<Box<u64>>();
    let (stx, srx) = state_broadcast_channel::<u64>();
    let (ctx, crx) = channel::<Box<u64>>(2);
    let (btx, brx, otx, orx) = (Arc::new(btx), Arc::new(brx), Arc::new(otx), Arc::new(orx));
    let (stx, srx, ctx, crx) = (Arc::new(stx), Arc::new(srx), Arc::new(ctx), Arc::new(crx));
    let timer = Arc::new(TimerService::new(&CLOCK));
    let accepted = Arc::new(AtomicU64::new(0));
    let received = Arc::new(AtomicU64::new(0));
    let mut hs = Vec::new();
    for t in 0..2u64 {
        let (ev, umutex, btx, brx, otx, orx) = (ev.clone(), umutex.clone(), btx.clone(), brx.clone(), otx.clone(), orx.clone());
        let (stx, srx, ctx, crx, timer) = (stx.clone(), srx.clone(), ctx.clone(), crx.clone(), timer.clone());
        let (accepted, received) = (accepted.clone(), received.clone());
        hs.push(std::thread::spawn(move || -> Result<(u64, u64), String> {
            // event: both threads write (set/reset) and read (is_set, wait) in turns, so that in
            // most schedules an accessor of one thread lies between two writes of the other
            for i in 0..3u64 {
                if (i + t) % 2 == 0 {
                    ev.set();
                } else {
                    ev.reset();
                }
                let _ = ev.is_set();
                std::thread::yield_now();
                let _ = block_on(GiveUp { f: ev.wait(), n: 0 });
                let _ = ev.is_set();
            }
            ev.set();
            block_on(ev.wait());
            // unfair mutex: try_lock / is_locked / lock with cancellation
            for _ in 0..2 {
                if let Some(mut g) = umutex.try_lock() {
                    *g += 1;
                    if !umutex.is_locked() {
                        return Err("is_locked() false while this thread holds the guard".into());
                    }
                } else if let Some(mut g) = block_on(GiveUp { f: umutex.lock(), n: 1 }) {
                    *g += 1;
                }
                std::thread::yield_now();
                let _ = umutex.is_locked();
            }
            // oneshot broadcast: racing senders on one handle, both threads receive through one handle
            let sent_b = btx.send(100 + t).is_ok();
            let got_b = block_on(brx.receive()).ok_or("broadcast receive: None although a value was sent")?;
            // single-consumer oneshot: racing senders, racing receivers
            let sent_o = otx.send(Box::new(200 + t)).is_ok();
            let got_o = block_on(orx.receive()).map(|b| *b);
            // state broadcast
            let mut id = StateId::new();
            for i in 0..2u64 {
                let _ = stx.send(t * 10 + i);
                if let Some((nid, _)) = srx.try_receive(id) {
                    id = nid;
                }
                if let Some(Some((nid, _))) = block_on(GiveUp { f: srx.receive(id), n: 1 }) {
                    id = nid;
                }
            }
            // shared mpmc by reference
            for i in 0..3u64 {
                if ctx.try_send(Box::new(t * 10 + i)).is_ok() {
                    accepted.fetch_add(1, Ordering::SeqCst);
                }
                if crx.try_receive().is_ok() {
                    received.fetch_add(1, Ordering::SeqCst);
                }
                if let Some(Some(_)) = block_on(GiveUp { f: crx.receive(), n: 0 }) {
                    received.fetch_add(1, Ordering::SeqCst);
                }
            }
            // timer accessors next to a registered future
            let _ = block_on(GiveUp { f: timer.deadline(1_000_000 + t), n: 1 });
            let _ = timer.next_expiration();
            Ok((got_b, (sent_b as u64) | ((sent_o as u64) << 1) | ((got_o.is_some() as u64) << 2)))
        }));
    }
    let mut res = Vec::new();
    for h in hs {
        res.push(h.join().map_err(|_| "worker panicked".to_string())??);
    }
    if res[0].0 != res[1].0 {
        return Err(format!("broadcast receivers saw different values: {} and {}", res[0].0, res[1].0));
    }
    let sent_b = res.iter().filter(|r| r.1 & 1 != 0).count();
    let sent_o = res.iter().filter(|r| r.1 & 2 != 0).count();
    let got_o = res.iter().filter(|r| r.1 & 4 != 0).count();
    if sent_b != 1 || sent_o != 1 || got_o != 1 {
        return Err(format!("oneshot: {} broadcast sends and {} oneshot sends succeeded, {} receivers got the oneshot value (1/1/1 expected)", sent_b, sent_o, got_o));
    }
    while crx.try_receive().is_ok() {
        received.fetch_add(1, Ordering::SeqCst);
    }
    if accepted.load(Ordering::SeqCst) != received.load(Ordering::SeqCst) {
        return Err(format!("{} values accepted but {} received", accepted.load(Ordering::SeqCst), received.load(Ordering::SeqCst)));
    }
    if umutex.is_locked() || !ev.is_set() || timer.next_expiration().is_some() {
        return Err("end state: mutex locked, event not set or a timer still registered".into());
    }
    if srx.try_receive(StateId::new()).is_none() {
        return Err("state channel lost its last state".into());
    }
    Ok(())
}
