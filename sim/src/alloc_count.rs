//! Counting global allocator. Counts only while the current thread is *armed*,
//! i.e. for the duration of a single library call made by the L1 simulator (C18).

use std::alloc::{GlobalAlloc, Layout, System};
use std::cell::Cell;

pub struct Counting;

#[derive(Clone, Copy, Default, Debug, PartialEq, Eq)]
pub struct Counts {
    pub allocs: u32,
    pub deallocs: u32,
    pub reallocs: u32,
}

thread_local! {
    static ARMED: Cell<bool> = const { Cell::new(false) };
    static COUNTS: Cell<Counts> = const { Cell::new(Counts { allocs: 0, deallocs: 0, reallocs: 0 }) };
}

#[inline]
fn bump(f: impl FnOnce(&mut Counts)) {
    // try_with: the allocator may be called during thread teardown
    let _ = ARMED.try_with(|a| {
        if a.get() {
            let _ = COUNTS.try_with(|c| {
                let mut v = c.get();
                f(&mut v);
                c.set(v);
            });
        }
    });
}

unsafe impl GlobalAlloc for Counting {
    unsafe fn alloc(&self, l: Layout) -> *mut u8 {
        bump(|c| c.allocs += 1);
        System.alloc(l)
    }
    unsafe fn dealloc(&self, p: *mut u8, l: Layout) {
        bump(|c| c.deallocs += 1);
        System.dealloc(p, l)
    }
    unsafe fn alloc_zeroed(&self, l: Layout) -> *mut u8 {
        bump(|c| c.allocs += 1);
        System.alloc_zeroed(l)
    }
    unsafe fn realloc(&self, p: *mut u8, l: Layout, n: usize) -> *mut u8 {
        bump(|c| c.reallocs += 1);
        System.realloc(p, l, n)
    }
}

/// Arms the counter, runs `f`, disarms and returns what happened inside.
#[inline]
pub fn armed<R>(f: impl FnOnce() -> R) -> (R, Counts) {
    COUNTS.with(|c| c.set(Counts::default()));
    ARMED.with(|a| a.set(true));
    struct Disarm;
    impl Drop for Disarm {
        fn drop(&mut self) {
            ARMED.with(|a| a.set(false));
        }
    }
    let d = Disarm;
    let r = f();
    drop(d);
    (r, COUNTS.with(|c| c.get()))
}
