//! Quarantine for the memory of dropped futures (L2 / L3). A future is dropped in place, its
//! bytes are overwritten with a recognisable pattern and the allocation is kept until the end
//! of the run. Any later *write* into it (a wait queue still holding the dropped future's
//! node) changes the pattern and is reported as a C01 violation; stale *reads* see pointers
//! into a harmless sink area instead of freed memory.

use std::alloc::Layout;
use std::cell::RefCell;

const SINK_WORDS: usize = 8192;
static mut SINK: [usize; SINK_WORDS] = [0; SINK_WORDS];

/// what a stale `Waker` vtable entry resolves to: does nothing
unsafe fn sink_noop(_: *const ()) {}

fn pattern_word() -> usize {
    static INIT: std::sync::Once = std::sync::Once::new();
    INIT.call_once(|| {
        // every word of the sink is the address of a no-op function: a stale waker whose data
        // and vtable words both point into the sink can be woken or dropped without a crash
        // (the write that `task.take()` performs on the poisoned node is what gets reported)
        let f = sink_noop as unsafe fn(*const ()) as usize;
        unsafe {
            let base = std::ptr::addr_of_mut!(SINK) as *mut usize;
            for i in 0..SINK_WORDS {
                base.add(i).write(f);
            }
        }
    });
    // an address in the middle of the sink: plausible as a pointer, never a live object
    unsafe { (std::ptr::addr_of!(SINK) as *const usize).add(SINK_WORDS / 2) as usize }
}

struct Block {
    ptr: *mut u8,
    layout: Layout,
    what: &'static str,
}

thread_local! {
    static BLOCKS: RefCell<Vec<Block>> = const { RefCell::new(Vec::new()) };
}

unsafe fn poison(ptr: *mut u8, size: usize) {
    let w = pattern_word().to_ne_bytes();
    for i in 0..size {
        *ptr.add(i) = w[i % w.len()];
    }
}

/// A heap cell for one future; dropping the cell drops the future in place, poisons the bytes
/// and hands the allocation to the quarantine.
pub struct QCell<F> {
    ptr: *mut F,
    what: &'static str,
}

impl<F> QCell<F> {
    pub fn new(f: F, what: &'static str) -> QCell<F> {
        let layout = Layout::new::<F>();
        let ptr = if layout.size() == 0 { std::ptr::NonNull::<F>::dangling().as_ptr() } else { unsafe { std::alloc::alloc(layout) as *mut F } };
        assert!(!ptr.is_null());
        unsafe { ptr.write(f) };
        QCell { ptr, what }
    }
    pub fn pin(&mut self) -> std::pin::Pin<&mut F> {
        // Safety: the value never moves out of its heap cell
        unsafe { std::pin::Pin::new_unchecked(&mut *self.ptr) }
    }
}

impl<F> Drop for QCell<F> {
    fn drop(&mut self) {
        let layout = Layout::new::<F>();
        unsafe {
            std::ptr::drop_in_place(self.ptr);
            if layout.size() > 0 {
                poison(self.ptr as *mut u8, layout.size());
                let b = Block { ptr: self.ptr as *mut u8, layout, what: self.what };
                BLOCKS.with(|q| q.borrow_mut().push(b));
            }
        }
    }
}

/// Checks every quarantined block and releases it. Returns a description of the first block
/// whose pattern was overwritten.
pub fn check_and_release() -> Option<String> {
    let blocks: Vec<Block> = BLOCKS.with(|q| std::mem::take(&mut *q.borrow_mut()));
    let w = pattern_word().to_ne_bytes();
    let mut bad = None;
    for b in blocks {
        unsafe {
            if bad.is_none() {
                for i in 0..b.layout.size() {
                    if *b.ptr.add(i) != w[i % w.len()] {
                        bad = Some(format!("memory of a dropped {} (a {}-byte future) was written at offset {} after the drop", b.what, b.layout.size(), i));
                        break;
                    }
                }
            }
            std::alloc::dealloc(b.ptr, b.layout);
        }
    }
    bad
}

/// Forget (free) whatever is quarantined without checking — start of a new run.
pub fn reset() {
    let blocks: Vec<Block> = BLOCKS.with(|q| std::mem::take(&mut *q.borrow_mut()));
    for b in blocks {
        unsafe { std::alloc::dealloc(b.ptr, b.layout) };
    }
}

pub fn quarantined() -> usize {
    BLOCKS.with(|q| q.borrow().len())
}

/// Type-erased variant for whole task state machines (L2): `Pin<Box<dyn Future>>` whose
/// memory is poisoned and quarantined, not freed, when the task finishes or is killed.
pub struct QDyn {
    ptr: *mut (dyn std::future::Future<Output = ()> + 'static),
    what: &'static str,
}

impl QDyn {
    pub fn new(b: std::pin::Pin<Box<dyn std::future::Future<Output = ()>>>, what: &'static str) -> QDyn {
        // Safety: the value stays pinned at its heap address for its whole life
        let ptr = Box::into_raw(unsafe { std::pin::Pin::into_inner_unchecked(b) });
        QDyn { ptr, what }
    }
    pub fn poll(&mut self, cx: &mut std::task::Context<'_>) -> std::task::Poll<()> {
        unsafe { std::pin::Pin::new_unchecked(&mut *self.ptr).poll(cx) }
    }
    /// leak without running destructors (a poisoned state machine after a panic)
    pub fn leak(self) {
        std::mem::forget(self)
    }
}

impl Drop for QDyn {
    fn drop(&mut self) {
        unsafe {
            let layout = Layout::for_value(&*self.ptr);
            std::ptr::drop_in_place(self.ptr);
            if layout.size() > 0 {
                let raw = self.ptr as *mut u8;
                poison(raw, layout.size());
                BLOCKS.with(|q| q.borrow_mut().push(Block { ptr: raw, layout, what: self.what }));
            }
        }
    }
}
