//! Names for the lock types the worlds are instantiated with.

use futures_intrusive::sync::{GenericSemaphore, LocalSemaphore};
use lock_api::RawMutex;

pub trait LockOf {
    type L: RawMutex;
}
impl<M: RawMutex> LockOf for GenericSemaphore<M> {
    type L = M;
}
/// The crate-private `NoopLock` behind the `Local*` aliases.
pub type NoopLock = <LocalSemaphore as LockOf>::L;
pub type PlLock = parking_lot::RawMutex;
